#!/venv/bin/python
"""Confirm a sub-agent's seeded mutation and run the registered check against it.

usage: seedcheck.py PROP LETTER [--wt /tmp/wt_PROP] [--props C01,C02] [--tier quick] [--skip-suite]
 1. in the scratch worktree (clean): demo passes; with the diff applied: demo fails and the repo test-suite passes
 2. the diff is applied to /repo, the check(s) run (VERIF_NO_SHRINK), /repo is restored
 3. everything is stored under /verif/seeded/<PROP>_<LETTER>/ (patch.diff, demo.py, meta.json)
"""
import argparse
import glob
import json
import os
import shutil
import subprocess
import sys
import tempfile
import time

HERE = os.path.dirname(os.path.dirname(os.path.abspath(__file__)))
ap = argparse.ArgumentParser()
ap.add_argument("prop")
ap.add_argument("letter")
ap.add_argument("--wt")
ap.add_argument("--props")
ap.add_argument("--tier", default="quick")
ap.add_argument("--skip-suite", action="store_true")
ap.add_argument("--seed", default="1")
ap.add_argument("--repo-diff", help="the same change ported to /repo's current HEAD (when later fixes touched the same lines)")
a = ap.parse_args()
wt = a.wt or "/tmp/wt_%s" % a.prop
seed_dir = os.path.join(wt, "_seed")
diff = os.path.join(seed_dir, "mut%s.diff" % a.letter)
demo = os.path.join(seed_dir, "demo%s.py" % a.letter)
name = "%s_%s" % (a.prop, a.letter)
out_dir = os.path.join(HERE, "seeded", name)
meta = {"property": a.prop, "id": name, "ran": []}


def sh(cmd, cwd=None, env=None, timeout=1800):
    t0 = time.time()
    r = subprocess.run(cmd, cwd=cwd, env=env, capture_output=True, text=True, errors="replace", timeout=timeout, shell=isinstance(cmd, str))
    meta["ran"].append({"cmd": cmd if isinstance(cmd, str) else " ".join(cmd), "rc": r.returncode, "s": round(time.time() - t0, 1)})
    return r


env = dict(os.environ, PYTHONPATH=wt)
if sh("git status --porcelain --untracked-files=no", cwd=wt).stdout.strip():
    sys.exit("worktree %s is not clean" % wt)
r = sh(["/venv/bin/python", demo], cwd=wt, env=env, timeout=600)
meta["demo_clean_rc"] = r.returncode
if sh(["git", "apply", diff], cwd=wt).returncode != 0:
    sys.exit("diff does not apply in worktree")
try:
    r = sh(["/venv/bin/python", demo], cwd=wt, env=env, timeout=600)
    meta["demo_mutated_rc"] = r.returncode
    meta["demo_mutated_tail"] = (r.stdout + r.stderr)[-600:]
    if not a.skip_suite:
        r = sh("/venv/bin/python -m pytest -q -p no:cacheprovider --timeout=900 tests/unit tests/integration 2>&1 | tail -3",
               cwd=wt, env=env, timeout=1500)
        meta["suite_tail"] = r.stdout.strip().split("\n")[-1]
finally:
    sh("git checkout -- . && git clean -fdq -e _seed -e _TASK.md", cwd=wt)
print("demo clean rc=%s mutated rc=%s suite: %s" % (meta["demo_clean_rc"], meta.get("demo_mutated_rc"), meta.get("suite_tail")))

# ---- run our checks with the patch applied to a scratch worktree at /repo's HEAD (VERIF_REPO points the checks at it;
# equivalent to `git -C /repo apply` + run + `git -C /repo checkout -- .`, but leaves /repo free for other work)
RUN = os.environ.get("SEEDRUN", "/tmp/wt_seedrun")
head = sh("git -C /repo rev-parse HEAD").stdout.strip()
if not os.path.isdir(RUN):
    sh("git -C /repo worktree add -q --detach %s %s" % (RUN, head))
sh("git -C %s checkout -q --detach %s && git -C %s checkout -- . && git -C %s clean -fdq" % (RUN, head, RUN, RUN))
meta["repo_head"] = head
props = (a.props or a.prop).split(",")
keep = tempfile.mkdtemp(prefix="seed_keep_")
for p in props:
    ev = os.path.join(HERE, "evidence", "%s.json" % p)
    if os.path.exists(ev):
        shutil.copy(ev, os.path.join(keep, "%s.json" % p))
before = set(glob.glob(os.path.join(HERE, "replays", "*", "*.json")))
meta["checks"] = {}
try:
    if sh(["git", "-C", RUN, "apply", os.path.abspath(a.repo_diff) if a.repo_diff else diff]).returncode != 0:
        sys.exit("diff does not apply to /repo HEAD")
    for p in props:
        e2 = dict(os.environ, VERIF_SEED=a.seed, VERIF_NO_SHRINK="1", VERIF_REPO=RUN)
        r = sh(["/venv/bin/python", os.path.join(HERE, "vcheck.py"), p, "--tier", a.tier], cwd=HERE, env=e2, timeout=7200)
        lines = [ln for ln in r.stdout.split("\n") if ln.startswith("violation bucket") or ln.startswith("VIOLATION") or
                 ln.startswith("regression replay") or ln.startswith(p + " ")]
        verdict = {0: "MISSED", 1: "CAUGHT", 2: "ERROR"}.get(r.returncode, "rc%d" % r.returncode)
        meta["checks"][p] = {"verdict": verdict, "tier": a.tier, "seed": a.seed, "lines": lines[:8]}
        print("=== %s %s: %s" % (name, p, verdict))
        for ln in lines[:6]:
            print("   ", ln[:300])
        if r.returncode == 2:
            print(r.stdout[-1500:], r.stderr[-800:])
finally:
    sh("git -C %s checkout -- . && git -C %s clean -fdq" % (RUN, RUN))
    for fpath in set(glob.glob(os.path.join(HERE, "replays", "*", "*.json"))) - before:
        os.remove(fpath)
    for p in props:
        k = os.path.join(keep, "%s.json" % p)
        if os.path.exists(k):
            shutil.copy(k, os.path.join(HERE, "evidence", "%s.json" % p))
    shutil.rmtree(keep, ignore_errors=True)

os.makedirs(out_dir, exist_ok=True)
shutil.copy(diff, os.path.join(out_dir, "patch.diff"))
if a.repo_diff:
    shutil.copy(a.repo_diff, os.path.join(out_dir, "patch_ported_to_head.diff"))
    meta["note"] = "patch.diff is the change as written (against the tree the sub-agent had); patch_ported_to_head.diff is the same change on top of later fixes that touched the same lines"
shutil.copy(demo, os.path.join(out_dir, "demo.py"))
notes = os.path.join(seed_dir, "NOTES.md")
if os.path.exists(notes):
    meta["agent_notes"] = open(notes).read()[:6000]
prev = {}
mp = os.path.join(out_dir, "meta.json")
if os.path.exists(mp):
    prev = json.load(open(mp))
    prev.setdefault("history", []).append({"checks": prev.get("checks")})
    meta["history"] = prev["history"]
    if a.skip_suite and prev.get("suite_tail"):
        meta["suite_tail"] = prev["suite_tail"] + " (from the earlier confirmation run)"
meta["valid"] = bool(meta["demo_clean_rc"] == 0 and meta.get("demo_mutated_rc") not in (0, None) and
                     (a.skip_suite or "passed" in (meta.get("suite_tail") or "") and "failed" not in (meta.get("suite_tail") or "")))
json.dump(meta, open(mp, "w"), indent=1)
print("stored in", out_dir, "valid=%s" % meta["valid"])
