#!/venv/bin/python
"""write /tmp/wt_<id>/_TASK.md : the brief for a mutation-seeding sub-agent (property text only, nothing from /verif)"""
import json, sys
props = {json.loads(l)["id"]: json.loads(l) for l in open("/verif/properties.jsonl")}
T = """You are helping to evaluate a verification harness by writing realistic *bugs* ("seeded mutations") for an open-source Python package. Work ONLY inside the git worktree {wt} (a checkout of the package AegeanTools: radio-astronomy source finder with Gaussian fitting, BANE background/noise estimation and HEALPix sky-region masks). Do not read or touch /repo or /verif. Do not commit anything.

How to run things: always use `cd {wt} && PYTHONPATH={wt} /venv/bin/python ...` so that `import AegeanTools` resolves to the worktree (check with `python -c "import AegeanTools; print(AegeanTools.__file__)"`). The existing test-suite is run with `cd {wt} && PYTHONPATH={wt} /venv/bin/python -m pytest -q -p no:cacheprovider --timeout=900 tests/unit tests/integration` (takes ~40 s; all 169 tests pass on the unmodified tree; the tests rewrite a couple of files under tests/test_files - restore them with `git checkout -- tests/test_files` afterwards and delete stray files they drop in the worktree root). No network is available. Never use `pkill -f`/`pgrep -f` (it can kill your own shell); if you start BANE runs that hang, kill them by PID and remove leftover /dev/shm/ibkg_* and /dev/shm/irms_* files.

The property to break (this is all you are told about what the harness checks):

PROPERTY {id} "{title}": {statement}
It is quantified over: {quant}
The code involved lives mainly in: {files}

Your task: produce TWO different, independent source changes (mutation A and mutation B) to the package, each of which
 (1) breaks the property above,
 (2) still imports/compiles and leaves the ENTIRE existing test-suite passing (run it to confirm), and
 (3) is subtle: it must need something specific to manifest - an unusual input (a narrow range of values, a particular shape/size/residue, a wrap/carry/pole/edge case, a particular option combination or call form), a particular interleaving or fault at a particular point, a multi-step sequence of operations, or two cooperating sites that each look fine alone. NOT something that ordinary use or a casual call would expose at once. Make it look like a plausible refactoring/optimisation mistake a real developer could make.
The two mutations should affect different functions and/or different clauses of the property.

For each mutation write into {wt}/_seed/ (create the directory):
 - mutA.diff / mutB.diff : output of `git diff` for that mutation alone relative to the unmodified tree (each diff must apply on its own with `git apply` to a clean tree),
 - demoA.py / demoB.py : a small standalone program (no pytest needed) that exits 0 on the unmodified tree and exits non-zero (printing what is wrong) with the mutation applied, run as `cd {wt} && PYTHONPATH={wt} /venv/bin/python _seed/demoA.py`; it should finish within about a minute,
 - NOTES.md : for each mutation, 3-6 lines: what was changed, which clause of the property it breaks, and exactly what is needed for it to manifest.
Verify yourself, for each mutation separately: clean tree -> demo passes; apply diff -> demo fails AND the full test-suite still passes; then `git checkout -- .` to restore the tree (leave the tree clean at the end, with only the untracked _seed/ directory added). Report back a short summary (what the two mutations are and the verification results).
"""
ROUND2 = """

Additional instructions for this round:
 - name the files mutC.diff / mutD.diff / demoC.py / demoD.py (not A/B);
 - other people are running jobs on this machine at the same time: always export OMP_NUM_THREADS=1 OPENBLAS_NUM_THREADS=1 before running python or pytest (otherwise small fits become ~100x slower), never use `git stash` (the stash is shared between worktrees; use `git diff > file` / `git checkout -- .` / `git apply file`), and never touch /dev/shm files you did not create;
 - aim for changes of a DIFFERENT flavour from the obvious ones: e.g. state carried between calls (caches, module globals, mutated arguments or inputs), behaviour that depends on the ORDER of inputs or of operations, an off-by-one that only shows at a size/shape boundary, a unit or sign convention that only matters in one hemisphere/quadrant/polarity, an option combination, or the command-line entry point (AegeanTools/CLI/*.py) passing something slightly wrong to the library.
"""
ROUND3 = """

Additional instructions for this round:
 - name the files mutE.diff / mutF.diff / demoE.py / demoF.py (not A/B);
 - other people are running jobs on this machine at the same time: always export OMP_NUM_THREADS=1 OPENBLAS_NUM_THREADS=1 before running python or pytest (otherwise small fits become ~100x slower), never use `git stash` (the stash is shared between worktrees; use `git diff > file` / `git checkout -- .` / `git apply file`), and never touch /dev/shm files you did not create;
 - aim for changes whose trigger is the REPRESENTATION of otherwise ordinary input, or a secondary code path: e.g. the on-disk/in-memory data type of the image or table column (float32 vs float64, integer BITPIX with BZERO/BSCALE, big-endian arrays as astropy returns them, masked columns, bytes vs str), the form of the header (CD matrix vs CDELT, missing optional cards, degenerate 3rd/4th axes, CRPIX far off the image, descending vs ascending axes), python scalars vs numpy scalars vs 0-d arrays, str vs pathlib paths vs open HDU objects, the multi-core code path (cores > 1) versus the serial one, non-default option values, or an input at the exact boundary between two branches. The change must still be invisible for the representation the existing tests use.
"""
letters = "AB"
if "--round3" in sys.argv:
    sys.argv.remove("--round3")
    T = T.replace("mutA.diff / mutB.diff", "mutE.diff / mutF.diff").replace("demoA.py / demoB.py", "demoE.py / demoF.py").replace(
        "(mutation A and mutation B)", "(mutation E and mutation F)").replace("_seed/demoA.py", "_seed/demoE.py") + ROUND3
if "--round2" in sys.argv:
    sys.argv.remove("--round2")
    T = T.replace("mutA.diff / mutB.diff", "mutC.diff / mutD.diff").replace("demoA.py / demoB.py", "demoC.py / demoD.py").replace(
        "(mutation A and mutation B)", "(mutation C and mutation D)").replace("_seed/demoA.py", "_seed/demoC.py") + ROUND2
for pid in sys.argv[1:]:
    p = props[pid]
    wt = "/tmp/wt_%s" % pid
    open(wt + "/_TASK.md", "w").write(T.format(wt=wt, id=pid, title=p["title"], statement=p["statement"],
                                               quant=p["quantifier"]["text"], files=", ".join(p["anchors"]["files"])))
    print("wrote", wt + "/_TASK.md")
