#!/venv/bin/python
"""Sensitivity test: apply a one-off textual mutation (or a patch file) to /repo, run a check, revert.

usage: kill.py PROP FILE 'old text' 'new text' [--count N] [--tier quick] [--only tests]
       kill.py PROP --patch file.diff
Prints KILLED (check exit 1), SURVIVED (exit 0) or ERROR (exit 2); /repo is always restored, evidence and replays too.
"""
import argparse
import glob
import os
import shutil
import subprocess
import sys
import tempfile

HERE = os.path.dirname(os.path.dirname(os.path.abspath(__file__)))
ap = argparse.ArgumentParser()
ap.add_argument("prop")
ap.add_argument("file", nargs="?")
ap.add_argument("old", nargs="?")
ap.add_argument("new", nargs="?")
ap.add_argument("--patch")
ap.add_argument("--count", type=int, default=1)
ap.add_argument("--tier", default="quick")
ap.add_argument("--only")
ap.add_argument("--seed", default="1")
ap.add_argument("--shrink", action="store_true")
a = ap.parse_args()

dirty = subprocess.run(["git", "-C", "/repo", "status", "--porcelain", "--untracked-files=no"],
                       capture_output=True, text=True).stdout.strip()
if dirty:
    sys.exit("refusing: /repo has uncommitted changes:\n" + dirty)

props = a.prop.split(",")
keep = tempfile.mkdtemp(prefix="kill_keep_")
for p in props:
    ev = os.path.join(HERE, "evidence", "%s.json" % p)
    if os.path.exists(ev):
        shutil.copy(ev, os.path.join(keep, "%s.json" % p))
before = set(glob.glob(os.path.join(HERE, "replays", "*", "*.json")))
try:
    if a.patch:
        subprocess.run(["git", "-C", "/repo", "apply", os.path.abspath(a.patch)], check=True)
    else:
        path = os.path.join("/repo", a.file)
        s = open(path).read()
        if s.count(a.old) != a.count:
            sys.exit("pattern occurs %d times, expected %d" % (s.count(a.old), a.count))
        open(path, "w").write(s.replace(a.old, a.new))
    env = dict(os.environ, VERIF_SEED=a.seed)
    if not a.shrink:
        env["VERIF_NO_SHRINK"] = "1"
    if a.only:
        env["VERIF_ONLY"] = a.only
    for p in props:
        r = subprocess.run(["/venv/bin/python", os.path.join(HERE, "vcheck.py"), p, "--tier", a.tier],
                           env=env, capture_output=True, text=True, cwd=HERE)
        tail = "\n".join(r.stdout.strip().split("\n")[-8:])
        verdict = {0: "SURVIVED", 1: "KILLED", 2: "ERROR"}.get(r.returncode, "rc=%d" % r.returncode)
        print("=== %s: %s\n%s" % (p, verdict, tail))
        if r.returncode == 2:
            print(r.stderr[-1500:])
finally:
    subprocess.run(["git", "-C", "/repo", "checkout", "--", "."], check=True)
    for f in set(glob.glob(os.path.join(HERE, "replays", "*", "*.json"))) - before:
        os.remove(f)
    for p in props:
        k = os.path.join(keep, "%s.json" % p)
        if os.path.exists(k):
            shutil.copy(k, os.path.join(HERE, "evidence", "%s.json" % p))
    shutil.rmtree(keep, ignore_errors=True)
