#!/bin/bash
# re-run the registered quick check against every stored seeded change on the current tree (separate worktree)
cd /verif
HEAD=$(git -C /repo rev-parse HEAD)
[ -d /tmp/wt_kill ] || git -C /repo worktree add --detach /tmp/wt_kill HEAD -q      # scratch worktree, removed at the end
for d in seeded/*/; do
  id=$(basename $d); prop=${id%%_*}
  git -C /tmp/wt_kill checkout -q --detach $HEAD; git -C /tmp/wt_kill checkout -q -- .; git -C /tmp/wt_kill clean -fdq
  if git -C /tmp/wt_kill apply /verif/$d/patch.diff 2>/dev/null; then
    out=$(VERIF_REPO=/tmp/wt_kill VERIF_NO_SHRINK=1 /venv/bin/python vcheck.py $prop --tier quick 2>&1 | grep -E "seed=|HARNESS" | tail -1)
    nv=$(echo "$out" | grep -o "[0-9]* new violation" | grep -o "[0-9]*")
    echo "$id applied: ${nv:-?} new violations ${out:0:0}"
  else
    echo "$id patch does not apply to HEAD"
  fi
  git checkout -q -- evidence replays 2>/dev/null; git clean -fdq replays 2>/dev/null
done
git -C /tmp/wt_kill checkout -q -- .
git -C /repo worktree remove --force /tmp/wt_kill
