#!/venv/bin/python
"""Regenerate MANIFEST.json from tools/manifest_src.json (kept by hand)."""
import json, os, subprocess
HERE = os.path.dirname(os.path.dirname(os.path.abspath(__file__)))
src = json.load(open(os.path.join(HERE, "tools", "manifest_src.json")))
props = [json.loads(l) for l in open(os.path.join(HERE, "properties.jsonl"))]
ids = [p["id"] for p in props]
checks = []
for pid in ids:
    c = src["checks"].get(pid)
    if not c:
        continue
    checks.append({
        "property_id": pid,
        "quick_cmd": "/venv/bin/python vcheck.py %s --tier quick" % pid,
        "thorough_cmd": "/venv/bin/python vcheck.py %s --tier thorough" % pid,
        "evidence_file": "/verif/evidence/%s.json" % pid,
        "replay_cmd_template": "/venv/bin/python vcheck.py %s --replay {path}" % pid,
        "engine": "vcheck",
        "level_claimed": {"category": "exploration", "text": c["text"], "design_ref": "DESIGN.md section 4, %s" % pid},
        "level_note": c["note"],
        "technique": c["technique"],
    })
na = [{"property_id": pid, "reason": src["not_applicable"].get(pid, "check not built yet (work in progress); see DESIGN.md section 4 for the plan")}
      for pid in ids if pid not in src["checks"]]
fixes = subprocess.run(["git", "-C", "/repo", "log", "--format=%h %s", "--grep=^hook:"], capture_output=True, text=True).stdout.split("\n")
man = {
    "version": 1,
    "setup_cmd": src["setup_cmd"],
    "hooks": src["hooks"],
    "engines": [{"name": "vcheck", "path": "vcheck.py", "serves_properties": [c["property_id"] for c in checks],
                 "kind_free_text": "Hypothesis-driven property-based testing runner (collect-then-shrink, sharded, seeded by VERIF_SEED, JSON replay files, regression replays, known-findings file)"}],
    "checks": checks,
    "notes": src["notes"],
    "not_applicable": na,
}
json.dump(man, open(os.path.join(HERE, "MANIFEST.json"), "w"), indent=1)
print("wrote MANIFEST.json with %d checks, %d not_applicable" % (len(checks), len(na)))
