#!/venv/bin/python
"""Runner: python vcheck.py Cxx --tier quick|thorough [--replay FILE]

exit 0 = held (KNOWN-FINDING lines possible); exit 1 = VIOLATION line printed;
exit 2 = harness error / inconclusive (never a verdict).
"""
import argparse
import hashlib
import importlib
import json
import math
import os
import shutil
import subprocess
import sys
import tempfile
import time
import traceback

HERE = os.path.dirname(os.path.abspath(__file__))
sys.path.insert(0, HERE)
REPO = os.environ.get("VERIF_REPO", "/repo")
sys.path.insert(0, REPO)
os.environ.setdefault("PYTHONHASHSEED", "0")
os.environ.setdefault("OMP_NUM_THREADS", "1")
os.environ.setdefault("OPENBLAS_NUM_THREADS", "1")
os.environ.setdefault("MKL_NUM_THREADS", "1")
os.environ.setdefault("AEGEAN_VERIF", "1")
os.environ.setdefault("TQDM_DISABLE", "1")


def harness_fail(msg):
    print("HARNESS-ERROR: %s" % msg, flush=True)
    sys.exit(2)


def load_module(prop):
    import warnings
    warnings.filterwarnings("ignore")
    import logging
    logging.disable(logging.CRITICAL)
    try:
        import AegeanTools
    except Exception as e:  # pragma: no cover
        harness_fail("cannot import AegeanTools: %r" % (e,))
    if not os.path.realpath(AegeanTools.__file__).startswith(os.path.realpath(REPO) + os.sep):
        harness_fail("AegeanTools imported from %s, not %s" % (AegeanTools.__file__, REPO))
    return importlib.import_module("checks.%s" % prop.lower())


def test_seed(seed, shard, name):
    h = int(hashlib.blake2b(name.encode(), digest_size=3).hexdigest(), 16)
    return (int(seed) * 1000 + shard) * 100000 + h % 100000


def n_for(t, tier, nshards):
    n = t["n"][tier]
    return int(math.ceil(n / float(nshards)))


def run_shard(mod, prop, tier, seed, shard, nshards, out):
    from vlib import core
    rec = core.Recorder(prop)
    core.CASE_TIMEOUT_S[0] = int(getattr(mod, "CASE_TIMEOUT_S", 0) or 0)
    only = os.environ.get("VERIF_ONLY")
    for name, t in mod.TESTS.items():
        if only and name not in only.split(","):
            continue
        if t.get("shards_max") and shard >= t["shards_max"]:
            continue
        ns = min(nshards, t.get("shards_max") or nshards)
        n = n_for(t, tier, ns)
        s = test_seed(seed, shard, name)
        before = {b: len(v) for b, v in rec.violations.items()}
        if "custom" in t:
            t["custom"](rec, name, tier, s, shard, ns, n)
        else:
            core.drive(rec, name, t["strategy"](tier), t["check"], n, s,
                       suppress_slow=t.get("suppress_slow", True))
        for b, lst in rec.violations.items():
            for v in lst[before.get(b, 0):]:
                v["_seed"], v["_n"], v["_shard"] = s, n, shard
    rec.dump(out)


def run_shrink(mod, args):
    from vlib import core
    t = mod.TESTS[args.test]
    if "custom" in t and "shrink" not in t:
        sys.exit(3)
    if "shrink" in t:
        got = t["shrink"](args.test, args.bucket, args.n, args.seedval, args.tier)
    else:
        got = core.shrink(args.test, t["strategy"](args.tier), t["check"],
                          args.bucket, args.n, args.seedval)
    with open(args.out, "w") as f:
        json.dump(got, f)


def replay_case(mod, viol, with_prev=None):
    """Re-execute one stored case without Hypothesis -> list of violation dicts.  A replay marked "sequence" is the
    two-step history (prev, case): the previous case is executed first (state leaking between calls is the defect)."""
    from vlib import core
    t = mod.TESTS[viol["test"]]
    case = core.dec(viol["case"])
    fn = t.get("replay") or t["check"]
    if with_prev is None:
        with_prev = bool(viol.get("sequence"))
    if with_prev and viol.get("prev") is not None:
        core.run_check(fn, core.dec(viol["prev"]))
    res = core.run_check(fn, case)
    out = []
    for clause, detail, tags in res.violations:
        out.append({"test": viol["test"], "clause": clause, "detail": detail,
                    "tags": core.enc(tags), "case": viol["case"]})
    return out


def save_replay(prop, viol, prefix=""):
    from vlib import core
    d = os.path.join(HERE, "replays", prop)
    os.makedirs(d, exist_ok=True)
    body = {k: v for k, v in viol.items() if not k.startswith("_")}
    body["property"] = prop
    h = hashlib.blake2b(core.canon(body["case"]).encode(), digest_size=5).hexdigest()
    safe = "".join(c if c.isalnum() or c in "-_." else "_" for c in
                   (viol["test"] + "-" + viol["clause"]))[:60]
    path = os.path.join(d, "%s%s-%s.json" % (prefix, safe, h))
    with open(path, "w") as f:
        json.dump(body, f, indent=1, sort_keys=True)
    return os.path.relpath(path, HERE)


def main():
    ap = argparse.ArgumentParser()
    ap.add_argument("prop")
    ap.add_argument("--tier", default=os.environ.get("VERIF_TIER", "quick"),
                    choices=["quick", "thorough"])
    ap.add_argument("--replay")
    ap.add_argument("--shard")
    ap.add_argument("--out")
    ap.add_argument("--shrink", action="store_true")
    ap.add_argument("--test")
    ap.add_argument("--bucket")
    ap.add_argument("--n", type=int)
    ap.add_argument("--seedval", type=int)
    ap.add_argument("--no-shrink", action="store_true")
    args = ap.parse_args()
    prop = args.prop.upper()
    try:
        seed = int(os.environ.get("VERIF_SEED", "1") or 1)
    except ValueError:
        seed = 1
    os.chdir(HERE)
    t0 = time.time()

    try:
        mod = load_module(prop)
    except SystemExit:
        raise
    except Exception:
        traceback.print_exc()
        harness_fail("cannot load check module for %s" % prop)
    from vlib import core

    # ---- child modes -------------------------------------------------
    if args.shard:
        i, n = [int(x) for x in args.shard.split("/")]
        # bound the address space of a shard: code that tries to build e.g. a 65k x 65k covariance matrix then raises
        # MemoryError inside AegeanTools (reported as an escaped exception) instead of getting the shard OOM-killed
        try:
            import resource
            lim = int(getattr(mod, "MEMORY_LIMIT_GB", 10)) * 1024 ** 3
            resource.setrlimit(resource.RLIMIT_AS, (lim, lim))
        except (ImportError, ValueError, OSError):
            pass
        try:
            run_shard(mod, prop, args.tier, seed, i, n, args.out)
        except Exception:
            traceback.print_exc()
            sys.exit(2)
        sys.exit(0)
    if args.shrink:
        try:
            run_shrink(mod, args)
        except Exception:
            traceback.print_exc()
            sys.exit(2)
        sys.exit(0)

    known = [k for k in core.load_known() if k.get("property") == prop]
    # re-executions in this (parent) process run under the same per-case budget and memory bound as the shards
    core.CASE_TIMEOUT_S[0] = int(getattr(mod, "CASE_TIMEOUT_S", 0) or 0)
    try:
        import resource
        lim = int(getattr(mod, "MEMORY_LIMIT_GB", 10)) * 1024 ** 3
        resource.setrlimit(resource.RLIMIT_AS, (lim, lim))
    except (ImportError, ValueError, OSError):
        pass

    # ---- replay mode --------------------------------------------------
    if args.replay:
        with open(args.replay) as f:
            viol = json.load(f)
        try:
            got = replay_case(mod, viol)
        except Exception:
            traceback.print_exc()
            harness_fail("replay raised in the harness")
        new = [v for v in got if not any(core.matches(k, prop, v) for k in known)]
        for v in got:
            print("replay: %s/%s: %s" % (v["test"], v["clause"], v["detail"]))
        if new:
            print("VIOLATION property=%s replay=%s" % (prop, args.replay))
            sys.exit(1)
        print("replay: no unlisted violation")
        sys.exit(0)

    # ---- normal run: shards ---------------------------------------------
    nshards = mod.SHARDS[args.tier] if isinstance(mod.SHARDS, dict) else mod.SHARDS
    nshards = max(1, min(nshards, os.cpu_count() or 1))
    tmp = tempfile.mkdtemp(prefix="vcheck_%s_" % prop)
    env = dict(os.environ)
    env["VERIF_SEED"] = str(seed)
    env["TMPDIR"] = tmp
    procs = []
    try:
        for i in range(nshards):
            out = os.path.join(tmp, "shard%d.pkl" % i)
            log = open(os.path.join(tmp, "shard%d.log" % i), "w")
            p = subprocess.Popen([sys.executable, os.path.abspath(__file__), prop,
                                  "--tier", args.tier, "--shard", "%d/%d" % (i, nshards),
                                  "--out", out], env=env, stdout=log, stderr=subprocess.STDOUT,
                                 start_new_session=True)
            procs.append((p, out, log))
        limit = getattr(mod, "TIME_LIMIT", {"quick": 1500, "thorough": 6 * 3600})[args.tier]
        rec = core.Recorder(prop)
        failed = []
        for i, (p, out, log) in enumerate(procs):
            try:
                rc = p.wait(timeout=max(1, limit - (time.time() - t0)))
            except subprocess.TimeoutExpired:
                rc = None
            log.close()
            if rc != 0 or not os.path.exists(out):
                failed.append((i, rc))
                continue
            rec.merge(core.Recorder.load(out))
        incomplete = None
        if failed:
            for p, _, _ in procs:
                if p.poll() is None:
                    try:
                        os.killpg(p.pid, 9)
                    except OSError:
                        pass
            crashed = [(i, rc) for i, rc in failed if rc is not None]
            if crashed or not rec.violations:
                for i, rc in failed:
                    try:
                        with open(os.path.join(tmp, "shard%d.log" % i)) as f:
                            sys.stdout.write(f.read()[-4000:])
                    except OSError:
                        pass
                harness_fail("shards failed or timed out: %r" % (failed,))
            # some shards ran out of time but the finished ones recorded violations: those stand on their own
            # (each is re-executed below before it is reported); the run is otherwise incomplete
            incomplete = "shards %r did not finish within the time limit" % ([i for i, _ in failed],)
            print("note: " + incomplete + "; reporting the violations found by the others")
            rec.extra["incomplete"] = incomplete

        # ---- known findings: re-execute their stored replay -----------
        known_lines = []
        for k in known:
            if k.get("status") != "open" or not k.get("replay"):
                continue
            try:
                with open(os.path.join(HERE, k["replay"])) as f:
                    kv = json.load(f)
                got = replay_case(mod, kv)
            except Exception:
                traceback.print_exc()
                harness_fail("known-finding replay %s raised in the harness" % k["id"])
            if any(core.matches(k, prop, v) for v in got):
                line = "KNOWN-FINDING: property=%s %s: %s" % (prop, k["id"], k["what"])
                print(line)
                known_lines.append(line)
            else:
                print("note: listed finding %s no longer reproduces from %s" % (k["id"], k["replay"]))

        # ---- regression tier: every saved failing input is re-executed -----
        import glob
        reg_lines = []
        nreg = 0
        # (replays/<id>/thorough/ holds reproductions that take minutes: thorough tier only)
        reg_paths = sorted(glob.glob(os.path.join(HERE, "replays", prop, "*.json")))
        if args.tier == "thorough":
            reg_paths += sorted(glob.glob(os.path.join(HERE, "replays", prop, "thorough", "*.json")))
        for path in reg_paths:
            if os.path.basename(path).startswith("known-"):
                continue
            try:
                with open(path) as f:
                    kv = json.load(f)
                got = replay_case(mod, kv)
            except Exception:
                traceback.print_exc()
                harness_fail("regression replay %s raised in the harness" % path)
            nreg += 1
            fresh = [v for v in got if not any(core.matches(k, prop, v) for k in known)]
            if fresh:
                print("regression replay %s: %s/%s: %s" % (os.path.relpath(path, HERE), fresh[0]["test"],
                                                          fresh[0]["clause"], fresh[0]["detail"]))
                reg_lines.append("VIOLATION property=%s replay=%s" % (prop, os.path.relpath(path, HERE)))
        rec.extra["regression_replays_executed"] = nreg
        rec.extra["regression_replays_failing"] = len(reg_lines)

        # ---- classify violations ------------------------------------------
        new_buckets = {}
        nknown = 0
        for b, lst in rec.violations.items():
            fresh = [v for v in lst if not any(core.matches(k, prop, v) for k in known)]
            nknown += len(lst) - len(fresh)
            if fresh:
                new_buckets[b] = fresh
        nviol = sum(rec.viol_count[b] for b in new_buckets)

        lines = []
        for b, lst in sorted(new_buckets.items()):
            lst.sort(key=lambda v: len(json.dumps(v["case"])))
            best = lst[0]
            # confirm by plain re-execution (state leaking between cases would show here); a candidate whose
            # re-execution runs out of the per-case budget is skipped in favour of the next one of the bucket
            again = []
            for cand in lst:
                try:
                    again = replay_case(mod, cand)
                except Exception:
                    traceback.print_exc()
                    harness_fail("re-execution of a failing case raised in the harness")
                if any(v["clause"] == cand["clause"] for v in again):
                    best = cand
                    break
            sequence = False
            if not any(v["clause"] == best["clause"] for v in again):
                reproduced = False
                # does it reproduce as the two-step history (previous case, this case)?
                for cand in lst:
                    if cand.get("prev") is None:
                        continue
                    try:
                        again = replay_case(mod, cand, with_prev=True)
                    except Exception:
                        traceback.print_exc()
                        harness_fail("re-execution of a failing history raised in the harness")
                    if any(v["clause"] == cand["clause"] for v in again):
                        best = dict(cand, sequence=True)
                        reproduced = sequence = True
                        print("note: bucket %s reproduces only as a two-call history (state carried between calls)" % b)
                        break
                if not reproduced:
                    print("note: bucket %s did not reproduce on plain re-execution: %s" % (b, best["detail"]))
            else:
                reproduced = True
            if not sequence:
                best = {k: v for k, v in best.items() if k != "prev"}
            shrunk = None
            if reproduced and not sequence and not args.no_shrink and os.environ.get("VERIF_NO_SHRINK") != "1":
                sf = os.path.join(tmp, "shrunk.json")
                if os.path.exists(sf):
                    os.remove(sf)
                try:
                    subprocess.run([sys.executable, os.path.abspath(__file__), prop, "--shrink",
                                    "--tier", args.tier, "--test", best["test"], "--bucket", b,
                                    "--n", str(best.get("_n", 100)), "--seedval", str(best.get("_seed", 0)),
                                    "--out", sf], env=env, timeout=getattr(mod, "SHRINK_S", 120),
                                   stdout=subprocess.DEVNULL, stderr=subprocess.DEVNULL,
                                   start_new_session=True)
                    if os.path.exists(sf):
                        with open(sf) as f:
                            shrunk = json.load(f)
                except (subprocess.TimeoutExpired, OSError, ValueError):
                    shrunk = None
            if shrunk:
                try:
                    if any(v["clause"] == shrunk["clause"] for v in replay_case(mod, shrunk)):
                        best = shrunk
                except Exception:
                    pass
            path = save_replay(prop, best)
            print("violation bucket %s (%d cases): %s" % (b, rec.viol_count[b], best["detail"]))
            if reproduced:
                lines.append("VIOLATION property=%s replay=%s" % (prop, path))
        lines = reg_lines + [ln for ln in lines if ln not in reg_lines]
        nviol += len(reg_lines)
        wall = time.time() - t0
        core.write_evidence(prop, args.tier, seed, rec, mod, wall, nviol, known_lines)
        nt = len(rec.nontrivial)
        print("%s %s seed=%d: %d cases, %d distinct non-trivial, %d excluded-known, %d ambiguous, "
              "%d new violation(s) in %d bucket(s), %d matching known findings, %.1fs" %
              (prop, args.tier, seed, rec.evaluations, nt, rec.excluded_known, rec.ambiguous,
               nviol, len(new_buckets), nknown, wall))
        if lines:
            for ln in lines:
                print(ln)
            sys.exit(1)
        if new_buckets:
            harness_fail("violations recorded that do not reproduce on re-execution (flaky oracle or leaked state)")
        if nt < 2 or rec.evaluations < 1:
            harness_fail("generator produced fewer than 2 non-trivial cases")
        sys.exit(0)
    finally:
        for p, _, _ in procs:
            if p.poll() is None:
                try:
                    os.killpg(p.pid, 9)
                except OSError:
                    pass
        shutil.rmtree(tmp, ignore_errors=True)


if __name__ == "__main__":
    main()
