#!/venv/bin/python
"""C07 child process: runs one BANE call under a generated schedule / fault plan.

usage: bane_child.py PLAN.json OUTDIR          (REPO taken from VERIF_REPO, default /repo)

BANE forks its workers on Linux, so what is patched here (in the parent of the pool) is inherited by every worker:
  * BANE.init is replaced so that each worker gets a *barrier proxy* (same wait/reset/abort interface) which sleeps
    according to the plan before arriving at and after being released from each synchronisation point, can raise the
    injected fault there, and appends (time, stripe, event) lines to an event log;
  * BANE.sigma_filter is wrapped to learn which stripe the worker is processing and to inject a fault at its start.
No source hook is needed.  The runner starts this script in its own session and owns the watchdog.
"""
import json
import os
import sys
import time
import traceback

plan_path, outdir = sys.argv[1], sys.argv[2]
REPO = os.environ.get("VERIF_REPO", "/repo")
sys.path.insert(0, REPO)
import warnings  # noqa
warnings.filterwarnings("ignore")
import logging  # noqa
logging.disable(logging.CRITICAL)
import numpy as np  # noqa
from astropy.io import fits  # noqa
from AegeanTools import BANE  # noqa

plan = json.load(open(plan_path))
LOG = os.path.join(outdir, "events.log")
T0 = time.time()


def log(stripe, event):
    line = "%.4f %s %s\n" % (time.time() - T0, stripe, event)
    fd = os.open(LOG, os.O_WRONLY | os.O_APPEND | os.O_CREAT, 0o644)
    try:
        os.write(fd, line.encode())
    finally:
        os.close(fd)


class InjectedFault(Exception):
    pass


STATE = {"stripe": None, "sync": 0}
DELAYS = plan.get("delays", {})          # {"<sync>": {"<stripe>": [pre, post]}}
FAULT = plan.get("fault")                # {"stripe": i, "phase": "start"|"arrive0"|"release0"|"arrive1"|"release1"}


def maybe_fault(phase):
    if FAULT and FAULT["stripe"] == STATE["stripe"] and FAULT["phase"] == phase:
        log(STATE["stripe"], "raised_" + phase)
        raise InjectedFault("injected fault in stripe %s at %s" % (STATE["stripe"], phase))


class BarrierProxy(object):
    def __init__(self, real):
        self.real = real

    def wait(self, timeout=None):
        k = STATE["sync"]
        s = STATE["stripe"]
        pre, post = DELAYS.get(str(k), {}).get(str(s), [0, 0])
        if pre:
            time.sleep(pre)
        maybe_fault("arrive%d" % k)
        log(s, "arrive%d" % k)
        i = self.real.wait(timeout)
        log(s, "release%d idx%d" % (k, i))
        STATE["sync"] = k + 1
        if post:
            time.sleep(post)
        maybe_fault("release%d" % k)
        return i

    def reset(self):
        log(STATE["stripe"], "reset")
        return self.real.reset()

    def abort(self):
        log(STATE["stripe"], "abort")
        return self.real.abort()

    def __getattr__(self, name):
        return getattr(self.real, name)


_real_init = BANE.init
_real_sigma_filter = BANE.sigma_filter
YMINS = []


def patched_init(b, mem):
    _real_init(BarrierProxy(b) if b is not None else None, mem)
    BANE.barrier = BarrierProxy(b) if b is not None else None
    log("-", "worker_init mem=%s pid=%d" % (mem, os.getpid()))


def patched_sigma_filter(filename, region, *args, **kw):
    # stripe index = rank of its first row
    STATE["stripe"] = plan["_ymins"].index(region[0]) if region[0] in plan["_ymins"] else -1
    STATE["sync"] = 0
    log(STATE["stripe"], "task_start rows=%d-%d pid=%d" % (region[0], region[1], os.getpid()))
    maybe_fault("start")
    out = _real_sigma_filter(filename, region, *args, **kw)
    log(STATE["stripe"], "done")
    return out


BANE.init = patched_init
BANE.sigma_filter = patched_sigma_filter


def make_image(p):
    rng = np.random.default_rng(p["seed"])
    rows, cols = p["rows"], p["cols"]
    img = rng.normal(size=(rows, cols)) * p.get("sigma", 1.0) + p.get("dc", 0.0)
    if p.get("gradient"):
        img += p["gradient"] * np.arange(rows)[:, None] / rows
    for (r0, r1, c0, c1) in p.get("nan_blocks", []):
        img[r0:r1, c0:c1] = np.nan
    return img


def stripe_layout(rows, nslice, cores, step):
    """the layout BANE derives (mirrors filter_mc_sharemem's arithmetic; only used to index stripes in the log)"""
    if nslice is None or cores == 1:
        nslice = cores
    if nslice > 1:
        width = int(max(rows / nslice / step, 1) * step)
        return list(range(0, rows, width))
    return [0]


result = {"ok": False}
try:
    img = make_image(plan["image"])
    path = os.path.join(outdir, "img.fits")
    fits.PrimaryHDU(img).writeto(path, overwrite=True)
    plan["_ymins"] = stripe_layout(plan["image"]["rows"], plan["stripes"], plan["cores"], plan["grid"])
    log("-", "layout ymins=%s cores=%s" % (plan["_ymins"], plan["cores"]))
    t = time.time()
    try:
        bkg, rms = BANE.filter_image(path, out_base=None, step_size=(plan["grid"], plan["grid"]),
                                     box_size=(plan["box"], plan["box"]), cores=plan["cores"], nslice=plan["stripes"],
                                     mask=plan.get("mask", True))
        result["wall"] = time.time() - t
        np.save(os.path.join(outdir, "bkg.npy"), bkg)
        np.save(os.path.join(outdir, "rms.npy"), rms)
        result["ok"] = True
    except BaseException as e:  # noqa
        result["wall"] = time.time() - t
        result["exception"] = "%s: %s" % (type(e).__name__, str(e)[-1500:])
        result["exception_type"] = type(e).__name__
    log("-", "call_returned ok=%s" % result["ok"])
except BaseException as e:  # noqa
    result["harness_error"] = traceback.format_exc()[-2000:]
json.dump(result, open(os.path.join(outdir, "result.json"), "w"))
# The property is about the BANE call; skip interpreter teardown (a Pool that was not closed on the failure path is
# torn down by multiprocessing's exit handlers, which is outside the call and can be slow under load).
os._exit(0)
