"""Interpreter for region operation histories: every op (a plain JSON dict) is applied to a real
AegeanTools Region and to a set model; after every step the state is inspected.  Used by the C08/C12
state machines, by the bounded-exhaustive enumeration and by replay."""
import copy
import math
import os
import shutil
import tempfile

import healpy as hp
import numpy as np

from AegeanTools.regions import Region
from vlib import regionlib as rl
from vlib.core import workdir


class SkipOp(Exception):
    """the model side could not build the operand (healpy rejected the polygon): op not applied"""


class History(object):
    def __init__(self, D, exports=False):
        self.D = D
        self.real = Region(maxdepth=D)
        self.model = set()
        self.ops = []
        self.violations = []      # (clause, detail, tags)
        self.flags = {"mutation_after_query": False, "mixed_depth_union": False, "pickle": False,
                      "queries": 0, "mutations": 0, "skipped": 0, "export_after_query": False,
                      "multi_level_export": False, "exports": 0}
        self._queried = False
        self._mutated_since_start = False
        self.tmp = None
        self.exports = exports

    # ------------------------------------------------------------ helpers
    def bad(self, clause, detail, **tags):
        self.violations.append((clause, detail, tags))

    def tmpdir(self):
        if self.tmp is None:
            self.tmp = workdir("reghist_")
        return self.tmp

    def close(self):
        if self.tmp:
            shutil.rmtree(self.tmp, ignore_errors=True)
            self.tmp = None

    def prim_model(self, prim, depth, D):
        d = rl.eff_depth(depth, D)
        try:
            pix = rl.prim_pixels(prim, d)
        except Exception:
            raise SkipOp()
        return rl.to_level(pix, d, D)

    def _mutating(self):
        self.flags["mutations"] += 1
        if self._queried:
            self.flags["mutation_after_query"] = True
        self._mutated_since_start = True

    # -------------------------------------------------------------- apply
    def apply(self, op):
        """apply one op to both sides, then inspect; returns True if the step was executed"""
        self.ops.append(op)
        k = op["op"]
        D = self.D
        try:
            if k == "add":
                m = self.prim_model(op["prim"], op.get("depth"), D)
                rl.apply_prim_to_region(self.real, op["prim"], op.get("depth"))
                self.model |= m
                self._mutating()
            elif k in ("union", "without", "intersect", "symdiff"):
                od = op["opdepth"]
                d_ins = rl.eff_depth(op.get("ins_depth"), od)
                try:
                    other_model_od = rl.to_level(rl.prim_pixels(op["prim"], d_ins), d_ins, od)
                    om = rl.to_level(other_model_od, od, D)
                except Exception:
                    raise SkipOp()
                other = Region(maxdepth=od)
                rl.apply_prim_to_region(other, op["prim"], op.get("ins_depth"))
                if op.get("queried"):
                    other.get_demoted()
                if k == "union":
                    self.real.union(other, renorm=True)
                    self.model |= om
                    if od != D:
                        self.flags["mixed_depth_union"] = True
                    self._mutating()
                else:
                    fn = {"without": self.real.without, "intersect": self.real.intersect,
                          "symdiff": self.real.symmetric_difference}[k]
                    if od != D:
                        try:
                            fn(other)
                        except AssertionError:
                            pass        # documented: same maxdepth required
                        else:
                            self.bad("mixed-depth-accepted", "%s accepted an operand of depth %d on a region of depth %d" % (k, od, D))
                    else:
                        fn(other)
                        if k == "without":
                            self.model -= om
                        elif k == "intersect":
                            self.model &= om
                        else:
                            self.model ^= om
                        self._mutating()
                # the operand must not have been changed in content by being used
                ob = rl.inspect(other, other_model_od, od, tag="operand after %s: " % k)
                for clause, detail in ob:
                    self.bad("operand-" + clause, detail)
            elif k == "union_norenorm":
                # union(other, renorm=False) with an operand that holds pixels on a COARSER level and does not overlap the
                # region: the result is a valid multi-level region that has not been through _renorm
                dc = max(1, min(D - 1, op["depth"]))
                if dc >= D:
                    raise SkipOp()
                pix = sorted(set(int(p) % (12 * 4 ** dc) for p in op["pix"]))
                om = rl.to_level(set(pix), dc, D)
                if om & self.model:
                    raise SkipOp()
                other = Region(maxdepth=D)
                other.add_pixels(pix, dc)
                self.real.union(other, renorm=False)
                self.model |= om
                self._mutating()
                self.flags["raw_union"] = True
            elif k == "sky_within":
                pts, expect = rl.query_points(self.model, D, op["picks"])
                for p_ in op.get("pixels", []):      # explicit level-D pixels (e.g. the ones an edit just moved)
                    p_ = int(p_) % (12 * 4 ** D)
                    theta, phi = hp.pix2ang(2 ** D, p_, nest=True)
                    pts.append((math.degrees(phi), 90.0 - math.degrees(theta)))
                    expect.append(p_ in self.model)
                form = op.get("form", "vector")
                ras = np.array([p[0] for p in pts])
                decs = np.array([p[1] for p in pts])
                if form == "scalar":
                    got = [bool(np.ravel(self.real.sky_within(math.radians(r), math.radians(d)))[0]) for r, d in pts]
                elif form == "degin":
                    got = list(np.asarray(self.real.sky_within(ras, decs, degin=True), dtype=bool))
                elif form == "nan":
                    ras2 = np.concatenate([ras, [float("nan"), 10.0]])
                    decs2 = np.concatenate([decs, [5.0, float("nan")]])
                    out = np.asarray(self.real.sky_within(ras2, decs2, degin=True), dtype=bool)
                    if out[-1] or out[-2]:
                        self.bad("nan-inside", "a position with a NaN coordinate is reported inside the region")
                    got = list(out[:-2])
                else:
                    got = list(np.asarray(self.real.sky_within(np.radians(ras), np.radians(decs)), dtype=bool))
                gb = [bool(g) for g in got]
                if gb != expect:
                    i = next(j for j in range(len(expect)) if j >= len(gb) or gb[j] != expect[j])
                    self.bad("sky-within", "sky_within(%r) [%s form] = %r, model says %r" % (
                        pts[i], form, gb[i] if i < len(gb) else None, expect[i]), after_query=self._queried)
                # a repeated query must give the same answer
                again = list(np.asarray(self.real.sky_within(ras, decs, degin=True), dtype=bool))
                if [bool(g) for g in again] != expect:
                    self.bad("query-changes-answer", "the same membership query gives a different answer when repeated")
                self._queried = True
                self.flags["queries"] += 1
            elif k == "get_demoted":
                dem = self.real.get_demoted()
                try:
                    ok = set(int(p) for p in dem) == self.model and all(float(p) == int(p) for p in dem)
                except (TypeError, ValueError):
                    ok = False
                if not ok:
                    self.bad("get-demoted", "get_demoted() returned %d pixels, model has %d" % (len(dem), len(self.model)))
                self._queried = True
                self.flags["queries"] += 1
            elif k == "get_area":
                self.real.get_area()
                repr(self.real)
                self.flags["queries"] += 1
            elif k == "pickle":
                path = os.path.join(self.tmpdir(), "r.mim")
                self.real.save(path)
                self.real = Region.load(path)
                self.flags["pickle"] = True
            elif k == "deepcopy":
                self.real = copy.deepcopy(self.real)
            elif k.startswith("export"):
                from vlib import regionexport
                regionexport.export_and_check(self, op)
            else:
                raise ValueError("unknown op %r" % (k,))
        except SkipOp:
            self.flags["skipped"] += 1
            self.ops.pop()
            return False
        except Exception as e:      # noqa: an exception escaping from AegeanTools is a violation, anything else a harness error
            from vlib.core import repo_frame
            fr = repo_frame(e.__traceback__)
            if fr is None:
                raise
            self.bad("no-exception", "%s raised %s: %s at %s" % (k, type(e).__name__, e, fr),
                     bucket="%s@%s" % (type(e).__name__, fr))
            return True
        for clause, detail in rl.inspect(self.real, self.model, D, tag="after %s: " % k):
            self.bad(clause, detail, op=k)
        return True

    def case(self):
        return {"D": self.D, "ops": self.ops}


def run_history(case, exports=False):
    """replay a stored history; returns the History"""
    h = History(case["D"], exports=exports)
    try:
        for op in case["ops"]:
            h.apply(copy.deepcopy(op))
            if h.violations:
                break
    finally:
        h.close()
    return h
