"""Export oracles for C12: MOC FITS (NUNIQ), DS9 .reg polygons, .mim pickle."""
import copy
import math
import os
import re

import healpy as hp
import numpy as np
from astropy.io import fits

from AegeanTools import MIMAS
from AegeanTools.regions import Region
from vlib import refs
from vlib import regionlib as rl

ARCSEC = 1.0 / 3600.0


def nuniq_decode(u):
    u = int(u)
    order = (u.bit_length() - 3) // 2
    return order, u - 4 * 4 ** order


def check_fits(h, via_mimas):
    D = h.D
    path = os.path.join(h.tmpdir(), "moc.fits")
    if via_mimas:
        mim = os.path.join(h.tmpdir(), "m.mim")
        h.real.save(mim)
        MIMAS.mim2fits(mim, path)
    else:
        h.real.write_fits(path)
    with fits.open(path) as hl:
        hdr = hl[1].header
        col = hl[1].columns[0].name
        data = [int(v) for v in hl[1].data[col]] if hl[1].data is not None and len(hl[1].data) else []
    if str(hdr.get("ORDERING", "")).strip() != "NUNIQ":
        h.bad("moc-ordering", "ORDERING = %r" % hdr.get("ORDERING"))
    if hdr.get("MOCORDER") != D:
        h.bad("moc-order", "MOCORDER = %r for a region of depth %d" % (hdr.get("MOCORDER"), D))
    covered = set()
    total = 0
    for u in data:
        if u < 4:
            h.bad("moc-pixels", "invalid NUNIQ value %r" % u)
            return
        order, ipix = nuniq_decode(u)
        if not (0 <= order <= D and 0 <= ipix < 12 * 4 ** order):
            h.bad("moc-pixels", "NUNIQ %d decodes to order %d pixel %d, invalid for depth %d" % (u, order, ipix, D))
            return
        k = 4 ** (D - order)
        total += k
        covered.update(range(ipix * k, (ipix + 1) * k))
    if total != len(covered):
        h.bad("moc-duplicates", "the NUNIQ list covers %d deepest-level pixels but %d distinct ones" % (total, len(covered)))
    if covered != h.model:
        h.bad("moc-pixels", "decoded MOC has %d deepest-level pixels, the region %d (missing %r, extra %r)" % (
            len(covered), len(h.model), sorted(h.model - covered)[:4], sorted(covered - h.model)[:4]),
            after_query=h._queried, empty=len(covered) == 0)


HMS = re.compile(r"^\s*(-?)(\d+):(\d+):([\d.]+)\s*$")


def parse_sex(s):
    m = HMS.match(s)
    if not m:
        raise ValueError(s)
    v = int(m.group(2)) + int(m.group(3)) / 60.0 + float(m.group(4)) / 3600.0
    return -v if m.group(1) == "-" else v


def check_reg(h, via_mimas):
    D = h.D
    stored = rl.stored_pixels(h.real)
    path = os.path.join(h.tmpdir(), "r.reg")
    if via_mimas:
        mim = os.path.join(h.tmpdir(), "m2.mim")
        h.real.save(mim)
        MIMAS.mim2reg(mim, path)
    else:
        h.real.write_reg(path)
    lines = [ln.strip() for ln in open(path) if ln.strip()]
    if len(lines) != len(stored):
        h.bad("reg-count", "%d polygons exported for %d stored pixels" % (len(lines), len(stored)))
        return
    covered = set()
    total = 0
    for ln in lines:
        m = re.match(r"^fk5;\s*polygon\((.*)\)$", ln)
        if not m:
            h.bad("reg-format", "unexpected line %r" % ln[:80])
            return
        words = m.group(1).split(",")
        if len(words) != 8:
            h.bad("reg-format", "polygon with %d coordinates: %r" % (len(words), ln[:80]))
            return
        try:
            ras = [parse_sex(w) * 15.0 for w in words[0::2]]
            decs = [parse_sex(w) for w in words[1::2]]
        except ValueError:
            h.bad("reg-format", "cannot parse %r" % ln[:80])
            return
        vecs = refs.sph2vec(ras, decs)
        cen = vecs.mean(axis=0)
        cen /= np.linalg.norm(cen)
        found = None
        for d in range(1, D + 1):
            p = int(hp.vec2pix(2 ** d, cen[0], cen[1], cen[2], nest=True))
            corners = hp.boundaries(2 ** d, p, step=1, nest=True).T      # (4, 3)
            cra, cdec = refs.vec2sph(corners)
            # every exported vertex must be one of this pixel's corners and vice versa (unordered)
            sep = refs.vsep(np.array(ras)[:, None], np.array(decs)[:, None], cra[None, :], cdec[None, :])
            if np.all(sep.min(axis=1) <= 0.1 * ARCSEC) and np.all(sep.min(axis=0) <= 0.1 * ARCSEC):
                found = (d, p)
                break
        if found is None:
            h.bad("reg-vertices", "polygon %r is not the outline of a HEALPix pixel at any level 1..%d" % (ln[:100], D))
            return
        d, p = found
        k = 4 ** (D - d)
        total += k
        covered.update(range(p * k, (p + 1) * k))
    if total != len(covered):
        h.bad("reg-duplicates", "exported polygons overlap")
    if covered != h.model:
        h.bad("reg-pixels", "exported polygons cover %d deepest-level pixels, the region %d" % (len(covered), len(h.model)))


def check_mim(h):
    D = h.D
    path = os.path.join(h.tmpdir(), "x.mim")
    before_pd = {d: set(v) for d, v in h.real.pixeldict.items()}
    h.real.save(path)
    back = Region.load(path)
    if back.maxdepth != D:
        h.bad("mim-depth", "loaded maxdepth %r != %d" % (back.maxdepth, D))
    pd = {d: set(v) for d, v in back.pixeldict.items()}
    if pd != before_pd:
        h.bad("mim-pixeldict", "loaded pixel dictionary differs from the saved one")
    for clause, detail in rl.inspect(back, h.model, D, tag="loaded .mim: "):
        h.bad("mim-" + clause, detail)


def export_and_check(h, op):
    k = op["op"]
    nstored = len(rl.stored_pixels(h.real))
    levels = len(set(d for d, _ in rl.stored_pixels(h.real)))
    if k == "export_fits":
        check_fits(h, op.get("via_mimas", False))
    elif k == "export_reg":
        if nstored > 200:
            from vlib.regionhist import SkipOp
            raise SkipOp()
        check_reg(h, op.get("via_mimas", False))
    elif k == "export_mim":
        check_mim(h)
    else:
        raise ValueError(k)
    h.flags["exports"] += 1
    if h._queried and h._mutated_since_start:
        h.flags["export_after_query"] = True
    if levels >= 2:
        h.flags["multi_level_export"] = True
