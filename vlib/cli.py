"""Drive the aegean command line in-process and read back the table it writes."""
import os

from AegeanTools.catalogs import load_table, table_to_source_list
from AegeanTools.CLI import aegean as aegean_cli
from AegeanTools.models import ComponentSource


def run_aegean(image, outdir, tag, extra):
    """aegean IMAGE --table OUT.csv <extra>; returns (rc, list of ComponentSource read from OUT_comp.csv)"""
    table = os.path.join(outdir, "cli_%s.csv" % tag)
    argv = [image, "--table", table, "--cores", "1"] + [str(a) for a in extra]
    rc = aegean_cli.main(argv)
    comp = os.path.join(outdir, "cli_%s_comp.csv" % tag)
    if not os.path.exists(comp):
        return rc, []
    return rc, table_to_source_list(load_table(comp), src_type=ComponentSource)
