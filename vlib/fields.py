"""Generated 'messy' fields for C03 and C13: many sky-defined sources of both signs, blends, tiny specks, spikes, NaN
rectangles, white or correlated noise.  Pure function of the case dict."""
import math

import numpy as np
from hypothesis import strategies as st

from vlib import refs, skyimg

f = st.floats

field_strategy = st.fixed_dictionaries({
    "family": st.sampled_from(["SIN", "SIN", "ARC-highdec", "TAN", "ZEA", "STG"]),
    "rows": st.integers(96, 256), "cols": st.integers(96, 256),
    "scale": f(5, 40), "beam": st.tuples(f(4, 6), f(1, 1.5), f(-90, 90)),
    "nsrc": st.one_of(st.integers(0, 8), st.integers(0, 60)),
    "layout": st.sampled_from(["grid", "grid", "random"]),
    "blend_rate": st.sampled_from([0.0, 0.2, 0.5]),
    "neg_rate": st.sampled_from([0.0, 0.3, 0.5]),
    "snr_range": st.sampled_from([(6, 30), (6, 300), (20, 100)]),
    "size_max": st.sampled_from([1.0, 1.5, 2.5]),
    "noise": st.sampled_from(["none", "white", "white", "correlated"]),
    "spikes": st.integers(0, 4), "specks": st.integers(0, 3),
    "nan_rects": st.integers(0, 2),
    "seed": st.integers(0, 2 ** 31 - 1),
    # fraction of sources that get a compact companion of the OPPOSITE sign close enough for the two flood regions to touch
    # (an island with pixels of both signs; either part can be the brighter one)
    "mixed_rate": st.sampled_from([0.0, 0.0, 0.25, 0.5]),
})


def build_field(c):
    """-> dict(w, hdr, shape, img, truth(list of sky sources), rms)"""
    rng = np.random.default_rng(c["seed"])
    s = c["scale"] / 3600.0
    rows, cols = c["rows"], c["cols"]
    if math.hypot(rows, cols) / 2 > 1.2 / s:
        k = 1.2 / s / (math.hypot(rows, cols) / 2)
        rows, cols = max(80, int(rows * k)), max(80, int(cols * k))
    if c["family"] == "ARC-highdec":
        proj, crval = "ARC", (rng.uniform(0, 360), float(rng.choice([-1, 1]) * rng.uniform(70, 84)))
    else:
        proj, crval = c["family"], (float(rng.choice([0.003, 359.997, rng.uniform(0, 360)])), rng.uniform(-60, 60))
    bmin, br, bpa = c["beam"]
    cpx, cpy = (cols + 1) / 2.0 + rng.uniform(-10, 10), (rows + 1) / 2.0 + rng.uniform(-10, 10)
    if c.get("far"):
        # the image lies `far` degrees from the reference point (a cut-out of a wide field): the local pixel scale and
        # orientation differ from those at CRPIX
        ang = rng.uniform(0, 2 * math.pi)
        cpx, cpy = cpx + c["far"] / s * math.cos(ang), cpy + c["far"] / s * math.sin(ang)
    w, hdr = skyimg.make_header(proj, crval, (cpx, cpy), c["scale"], (rows, cols), (bmin * br, 1.0 / br, bpa))
    beam = (hdr["BMAJ"], hdr["BMIN"], hdr["BPA"])
    bmaj_px = bmin * br
    truth = []
    cell = 3.5 * c["size_max"] * bmaj_px + 6
    if c["layout"] == "grid":
        nr, nc = max(1, int((rows - 10) // cell)), max(1, int((cols - 10) // cell))
        cells = [(i, j) for i in range(nr) for j in range(nc)]
        rng.shuffle(cells)
        centres = [(6 + (j + 0.5) * cell + rng.uniform(-0.15, 0.15) * cell, 6 + (i + 0.5) * cell + rng.uniform(-0.15, 0.15) * cell)
                   for i, j in cells[: c["nsrc"]]]
    else:
        centres = [(rng.uniform(8, cols - 8), rng.uniform(8, rows - 8)) for _ in range(min(c["nsrc"], 40))]
    lo, hi = c["snr_range"]
    for (px, py) in centres:
        ncomp = 1
        if rng.random() < c["blend_rate"]:
            ncomp = int(rng.integers(2, 5))
        sign = -1.0 if rng.random() < c["neg_rate"] else 1.0
        for k in range(ncomp):
            qx, qy = px, py
            if k:
                ang = rng.uniform(0, 2 * math.pi)
                sep = rng.uniform(0.9, 1.6) * bmaj_px
                qx, qy = px + sep * math.cos(ang), py + sep * math.sin(ang)
            ra, dec = (float(v) for v in w.pix2sky(qx, qy))
            sf = rng.uniform(1.0, c["size_max"])
            ia = math.sqrt(max(sf * sf - 1, 0)) * beam[0]
            a, b, pa = skyimg.convolve(beam, (ia + 1e-9, ia * rng.uniform(0.3, 1) + 1e-9, rng.uniform(-90, 90)))
            peak = sign * float(np.exp(rng.uniform(math.log(lo), math.log(hi))))
            truth.append(dict(ra=ra, dec=dec, peak=peak, a=a, b=b, pa=pa))
        if c.get("mixed_rate", 0.0) and rng.random() < c["mixed_rate"]:
            ang = rng.uniform(0, 2 * math.pi)
            sep = rng.uniform(1.3, 1.9) * bmaj_px
            ra, dec = (float(v) for v in w.pix2sky(px + sep * math.cos(ang), py + sep * math.sin(ang)))
            truth.append(dict(ra=ra, dec=dec, peak=-truth[-1]["peak"] * float(rng.uniform(0.4, 2.0)),
                              a=beam[0], b=beam[1], pa=beam[2]))
    img = skyimg.render(w, (rows, cols), truth)
    if c["noise"] == "white":
        img = img + rng.normal(size=img.shape)
    elif c["noise"] == "correlated":
        img = img + skyimg.correlated_noise(img.shape, skyimg.pixel_beam(w, hdr) / 2.0, rng, 1.0)
    # single pixel spikes and 2-5 pixel specks (tiny islands -> FITERRSMALL / FIXED2PSF)
    for _ in range(c["spikes"]):
        i, j = int(rng.integers(2, rows - 2)), int(rng.integers(2, cols - 2))
        img[i, j] += float(rng.choice([-1, 1])) * rng.uniform(8, 40)
    for _ in range(c["specks"]):
        i, j = int(rng.integers(3, rows - 4)), int(rng.integers(3, cols - 4))
        n = int(rng.integers(2, 6))
        amp = float(rng.choice([-1, 1])) * rng.uniform(8, 25)
        for k in range(n):
            img[i + (k // 3), j + (k % 3)] += amp
    for _ in range(c["nan_rects"]):
        i, j = int(rng.integers(0, rows - 10)), int(rng.integers(0, cols - 10))
        img[i:i + int(rng.integers(3, 20)), j:j + int(rng.integers(3, 20))] = np.nan
    return dict(w=w, hdr=hdr, shape=(rows, cols), img=img, truth=truth, rms=1.0, beam=beam, s=s)
