#!/venv/bin/python
"""C03 fresh-process re-run: python c03_child.py CASE.json IMAGE.fits OUT.json  (REPO from VERIF_REPO)"""
import json
import os
import sys

HERE = os.path.dirname(os.path.dirname(os.path.abspath(__file__)))
REPO = os.environ.get("VERIF_REPO", "/repo")
sys.path.insert(0, HERE)
sys.path.insert(0, REPO)
os.environ.setdefault("TQDM_DISABLE", "1")
import warnings  # noqa
warnings.filterwarnings("ignore")
import logging  # noqa
logging.disable(logging.CRITICAL)
from vlib import core, fields  # noqa
from checks import c03  # noqa

c = core.dec(json.load(open(sys.argv[1])))      # (the case is stored after the prior-synth field override)
F = fields.build_field(c["field"])
if c.get("intpix"):
    import numpy as np  # noqa
    F["img"] = np.round(F["img"])
sources, _ = c03.run_case(c, sys.argv[2], F)
json.dump(c03.rows_as_json(sources), open(sys.argv[3], "w"))
