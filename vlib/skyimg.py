"""Synthetic sky images for the fitter-dependent properties (C01, C03, C05, C11, C13, C14).
Everything here is independent of AegeanTools: sources are defined ON THE SKY (ra, dec, peak, FWHM a/b in degrees,
position angle East of North) and rendered through the harness's own WCS and spherical formulas."""
import math

import numpy as np
from astropy.io import fits

from vlib import refs

FWHM2SIG = 1.0 / (2.0 * math.sqrt(2.0 * math.log(2.0)))
LN2x4 = 4.0 * math.log(2.0)


def make_header(proj, crval, crpix, scale_arcsec, shape, beam_px, flipy=False, rot=0.0):
    """shape = (rows, cols); beam_px = (bmaj_px, ratio, bpa_deg); returns (ZWCS, fits.Header)"""
    s = scale_arcsec / 3600.0
    w = refs.ZWCS(proj, crval[0], crval[1], crpix[0], crpix[1], -s, -s if flipy else s, rot)
    hdr = fits.Header()
    hdr["SIMPLE"] = True
    hdr["BITPIX"] = -64
    hdr["NAXIS"] = 2
    hdr["NAXIS1"] = shape[1]
    hdr["NAXIS2"] = shape[0]
    for k, v in w.header_cards().items():
        hdr[k] = v
    bmaj = beam_px[0] * s
    hdr["BMAJ"] = bmaj
    hdr["BMIN"] = bmaj * beam_px[1]
    hdr["BPA"] = beam_px[2]
    hdr["BUNIT"] = "Jy/beam"
    return w, hdr


def cov_of(a, b, pa_deg):
    """2x2 covariance (units of a^2) in the local (east, north) tangent plane of a Gaussian with FWHM a, b and
    position angle pa (East of North = major axis rotated from north towards east)"""
    sa, sb = a * FWHM2SIG, b * FWHM2SIG
    t = math.radians(pa_deg)
    # unit vector of the major axis in (east, north)
    u = np.array([math.sin(t), math.cos(t)])
    v = np.array([math.cos(t), -math.sin(t)])
    return sa * sa * np.outer(u, u) + sb * sb * np.outer(v, v)


def shape_of(cov):
    """(a, b, pa) FWHM / East-of-North position angle of a covariance in the (east, north) plane"""
    vals, vecs = np.linalg.eigh(cov)
    sb, sa = math.sqrt(max(vals[0], 0)), math.sqrt(max(vals[1], 0))
    u = vecs[:, 1]
    pa = math.degrees(math.atan2(u[0], u[1]))
    pa = (pa + 90.0) % 180.0 - 90.0
    if pa == -90.0:
        pa = 90.0
    return sa / FWHM2SIG, sb / FWHM2SIG, pa


def convolve(shape1, shape2):
    """convolution of two sky Gaussians (a, b, pa) -> (a, b, pa)"""
    return shape_of(cov_of(*shape1) + cov_of(*shape2))


def render(w, shape, sources, nsig=6.0, out=None):
    """image (rows, cols) float64 of the sum of sky Gaussians; each source is a dict(ra, dec, peak, a, b, pa) with a, b
    FWHM in degrees.  Pixel (i, j) 0-based <-> FITS (j+1, i+1).  Evaluated on the sphere: for every pixel within
    nsig sigma the separation d and bearing beta from the source centre give
    peak * exp(-4 ln2 d^2 (cos^2(beta-pa)/a^2 + sin^2(beta-pa)/b^2))."""
    rows, cols = shape
    img = np.zeros((rows, cols)) if out is None else out
    pix = max(abs(w.cdelt1), abs(w.cdelt2))
    for s in sources:
        p1, p2 = w.sky2pix(s["ra"], s["dec"])
        p1, p2 = float(p1), float(p2)
        half = nsig * s["a"] * FWHM2SIG / min(abs(w.cdelt1), abs(w.cdelt2)) * 1.3 + 2
        j0, j1 = int(max(0, math.floor(p1 - 1 - half))), int(min(cols, math.ceil(p1 - 1 + half) + 1))
        i0, i1 = int(max(0, math.floor(p2 - 1 - half))), int(min(rows, math.ceil(p2 - 1 + half) + 1))
        if j0 >= j1 or i0 >= i1:
            continue
        jj, ii = np.meshgrid(np.arange(j0, j1), np.arange(i0, i1))
        ra, dec = w.pix2sky(jj + 1.0, ii + 1.0)
        d = refs.vsep(s["ra"], s["dec"], ra, dec)
        beta = refs.vbear(np.full(ra.shape, s["ra"]), np.full(ra.shape, s["dec"]), ra, dec)
        t = np.radians(beta - s["pa"])
        val = s["peak"] * np.exp(-LN2x4 * d * d * (np.cos(t) ** 2 / s["a"] ** 2 + np.sin(t) ** 2 / s["b"] ** 2))
        img[i0:i1, j0:j1] += val
    return img


def pixel_beam(w, hdr):
    """the synthesised beam at the reference pixel as a pixel-plane covariance (rows=x, cols=y convention is NOT used
    here: returns cov in (col, row) = (FITS axis1, axis2) pixel coordinates)"""
    bmaj, bmin, bpa = hdr["BMAJ"], hdr["BMIN"], hdr["BPA"]
    c = cov_of(bmaj, bmin, bpa)            # (east, north) in deg^2
    # at the reference pixel: east = -axis1 * |cdelt1| (cdelt1 < 0), north = axis2 * cdelt2
    J = np.array(w.icd)      # d(pix)/d(east, north); without rotation diag(1/cdelt1, 1/cdelt2), east = cdelt1*dp1 (cdelt1<0)
    return J.dot(c).dot(J.T)


def correlated_noise(shape, cov_pix, rng, sigma=1.0):
    """stationary Gaussian field with unit variance x sigma^2 whose correlation function is the Gaussian
    exp(-0.5 r^T cov_pix^-1 r) (r in (col,row) pixels), generated exactly by FFT on a periodic box and cropped."""
    rows, cols = shape
    pad = int(6 * math.sqrt(max(cov_pix[0, 0], cov_pix[1, 1]))) + 4
    R, C = rows + 2 * pad, cols + 2 * pad
    y = np.fft.fftfreq(R, d=1.0 / R)[:, None]     # integer lags (wrap-around)
    x = np.fft.fftfreq(C, d=1.0 / C)[None, :]
    inv = np.linalg.inv(cov_pix)
    corr = np.exp(-0.5 * (inv[0, 0] * x * x + 2 * inv[0, 1] * x * y + inv[1, 1] * y * y))
    power = np.fft.fft2(corr).real
    power[power < 0] = 0
    white = rng.normal(size=(R, C))
    field = np.fft.ifft2(np.fft.fft2(white) * np.sqrt(power)).real
    field = field[pad:pad + rows, pad:pad + cols]
    return field * sigma          # corr[0,0] = 1 so the variance is 1


# Representations of the SAME image: header with a CD matrix instead of CDELT, one or two degenerate trailing axes (frequency,
# Stokes), pixel values stored scaled (BSCALE/BZERO; powers of two so that the physical values are reproduced to an ulp).
# None = the plain 2-D CDELT float image.
from hypothesis import strategies as _st
rep_strategy = _st.sampled_from([
    None, None, None, None, {"cd": True}, {"extra_axes": 1}, {"extra_axes": 2}, {"bscale": [2.0, 0.0]}, {"bscale": [0.5, 3.0]},
    {"cd": True, "extra_axes": 2}, {"cd": True, "extra_axes": 1, "bscale": [-4.0, 1.0]}])
rep_strategy_exact = _st.sampled_from([None, None, None, {"cd": True}, {"extra_axes": 1}, {"extra_axes": 2}, {"cd": True, "extra_axes": 2}])


def cube_kw(rep):
    """callers hand a plane index for files with more than two axes (the command line always passes --slice, default 0)"""
    return {"cube_index": 0} if rep and rep.get("extra_axes") else {}


def write_fits(path, img, hdr, dtype=np.float64, rep=None):
    h = hdr.copy()
    rep = rep or {}
    h["BITPIX"] = -64 if dtype == np.float64 else -32
    data = np.asarray(img, dtype=np.float64)
    if rep.get("cd") and "CDELT1" in h:
        h["CD1_1"], h["CD1_2"], h["CD2_1"], h["CD2_2"] = h["CDELT1"], 0.0, 0.0, h["CDELT2"]
        del h["CDELT1"]
        del h["CDELT2"]
    scal = rep.get("bscale")
    if scal:
        data = (data - scal[1]) / scal[0]
    arr = np.asarray(data, dtype=dtype)
    extra = int(rep.get("extra_axes", 0))
    for _ in range(extra):
        arr = arr[None]
    hdu = fits.PrimaryHDU(arr, header=h)
    for k, (ct, cv) in enumerate([("FREQ", 1.4e9), ("STOKES", 1.0)][:extra]):
        n = 3 + k
        hdu.header["CTYPE%d" % n], hdu.header["CRVAL%d" % n] = ct, cv
        hdu.header["CRPIX%d" % n], hdu.header["CDELT%d" % n] = 1.0, 1.0
    hdu.writeto(path, overwrite=True)
    if scal:
        with fits.open(path, mode="update", do_not_scale_image_data=True) as hl:
            hl[0].header["BSCALE"] = scal[0]
            hl[0].header["BZERO"] = scal[1]
