"""Shared machinery for the region properties (C08, C09, C10, C11, C12): primitives -> HEALPix pixel
sets through healpy directly (the model side), a set model of a Region at its deepest level, and an
operation interpreter that drives a real Region and the model side by side."""
import copy
import math
import os
import pickle

import healpy as hp
import numpy as np

from AegeanTools.regions import Region


# ------------------------------------------------------------------ model side
def vec_of(ra_deg, dec_deg):
    return hp.ang2vec(math.pi / 2 - math.radians(dec_deg), math.radians(ra_deg))


def convex_polygon(centre, radius, azimuths):
    """vertices (ra, dec) in degrees of a convex spherical polygon: points at the given azimuths on the small circle
    of the given radius around centre"""
    from vlib import refs
    out = []
    for az in sorted(azimuths):
        ra, dec = refs.vdest(centre[0], centre[1], radius, az)
        out.append((float(ra), float(dec)))
    return out


def prim_pixels(prim, depth):
    """pixels (nested, at `depth`) of a primitive, computed with healpy exactly as documented for the Region API
    (inclusive query)"""
    kind = prim["kind"]
    nside = 2 ** depth
    if kind == "circle":
        pix = hp.query_disc(nside, vec_of(prim["ra"], prim["dec"]), math.radians(prim["r"]), inclusive=True, nest=True)
    elif kind == "poly":
        verts = convex_polygon(prim["centre"], prim["radius"], prim["az"])
        vecs = np.array([vec_of(r, d) for r, d in verts])
        pix = hp.query_polygon(nside, vecs, inclusive=True, nest=True)
    elif kind == "pixels":
        pix = [p % (12 * 4 ** depth) for p in prim["pix"]]
    else:
        raise ValueError(kind)
    return set(int(p) for p in pix)


def to_level(pixels, depth, D):
    """the set of level-D pixels standing for `pixels` at `depth`: descendants (D > depth) or ancestors (D < depth)"""
    if depth == D:
        return set(int(p) for p in pixels)
    if depth < D:
        k = 4 ** (D - depth)
        if k * len(pixels) > 400000:
            raise MemoryError("operand too large for the harness (%d pixels)" % (k * len(pixels)))
        out = set()
        for p in pixels:
            out.update(range(int(p) * k, (int(p) + 1) * k))
        return out
    k = 4 ** (depth - D)
    return set(int(p) // k for p in pixels)


def apply_prim_to_region(region, prim, depth):
    """add a primitive to a real Region through the public API, at `depth` (None = region depth)"""
    if prim["kind"] == "circle":
        if prim.get("list_form"):
            region.add_circles([math.radians(prim["ra"])], [math.radians(prim["dec"])], [math.radians(prim["r"])], depth=depth)
        else:
            region.add_circles(math.radians(prim["ra"]), math.radians(prim["dec"]), math.radians(prim["r"]), depth=depth)
    elif prim["kind"] == "poly":
        verts = convex_polygon(prim["centre"], prim["radius"], prim["az"])
        region.add_poly([[math.radians(r), math.radians(d)] for r, d in verts], depth=depth)
    elif prim["kind"] == "pixels":
        d = region.maxdepth if depth is None else depth
        region.add_pixels([p % (12 * 4 ** d) for p in prim["pix"]], d)
        region._renorm()     # the only way the repository itself uses add_pixels (MIMAS.mask2mim)
    else:
        raise ValueError(prim["kind"])


def eff_depth(depth, D):
    return D if depth is None or depth > D else depth


def make_operand(prim, opdepth, ins_depth=None, queried=False):
    """a fresh Region of depth `opdepth` holding one primitive, and its model set at opdepth"""
    reg = Region(maxdepth=opdepth)
    apply_prim_to_region(reg, prim, ins_depth)
    d = eff_depth(ins_depth, opdepth)
    model = to_level(prim_pixels(prim, d), d, opdepth)
    if queried:
        reg.get_demoted()
    return reg, model


# --------------------------------------------------------------- inspection
def stored_pixels(region):
    """(level, pixel) pairs stored in the region's multi-level representation"""
    out = []
    for d in sorted(region.pixeldict):
        for p in region.pixeldict[d]:
            out.append((d, p))
    return out


def inspect(region, model, D, tag=""):
    """Validity of the current state against the model set at level D.  Uses only a deep copy for the public
    queries, so the inspection itself never changes the region.  Returns a list of (clause, detail)."""
    bad = []
    # identifiers: integral-valued, in range for their level
    for d, p in stored_pixels(region):
        try:
            integral = float(p) == int(p)
        except (TypeError, ValueError, OverflowError):
            integral = False
        if not integral or not (0 <= int(p) < 12 * 4 ** d) or not (1 <= d <= D):
            bad.append(("pixel-id", "%sstored pixel id %r at level %r is not a valid integer id for that level" % (tag, p, d)))
            return bad
    # nothing represented twice: the stored pixels, expanded to level D, must not overlap
    covered = set()
    total = 0
    for d, p in stored_pixels(region):
        k = 4 ** (D - d)
        total += k
        covered.update(range(int(p) * k, (int(p) + 1) * k))
    if total != len(covered):
        bad.append(("represented-twice", "%sstored pixels cover %d level-%d pixels but %d distinct ones" % (
            tag, total, D, len(covered))))
    # public API on a deep copy
    c = copy.deepcopy(region)
    dem = c.get_demoted()
    try:
        demset = set(int(p) for p in dem)
        integral = all(float(p) == int(p) for p in dem)
    except (TypeError, ValueError):
        demset, integral = None, False
    if not integral:
        bad.append(("pixel-id", "%sget_demoted returns non-integral ids, e.g. %r" % (tag, sorted(dem)[:3])))
    elif demset != model:
        extra = sorted(demset - model)[:4]
        missing = sorted(model - demset)[:4]
        bad.append(("demoted-set", "%sget_demoted has %d pixels, model %d (extra %r, missing %r)" % (
            tag, len(demset), len(model), extra, missing)))
    area = region.get_area()
    want = len(model) * hp.nside2pixarea(2 ** D, degrees=True)
    if not abs(area - want) <= 1e-9 * max(want, 1e-30) + 1e-300:
        bad.append(("area", "%sget_area() = %r, |model| x pixel area = %r" % (tag, area, want)))
    return bad


def query_points(model, D, picks, universe=None):
    """pixel centres (ra, dec in degrees) of some members and non-members at level D; picks = list of ints"""
    nside = 2 ** D
    npix = 12 * 4 ** D
    members = sorted(model)
    pts, expect = [], []
    for k, v in enumerate(picks):
        if k % 2 == 0 and members:
            p = members[v % len(members)]
        else:
            p = v % npix
        theta, phi = hp.pix2ang(nside, p, nest=True)
        pts.append((math.degrees(phi), 90.0 - math.degrees(theta)))
        expect.append(p in model)
    return pts, expect
