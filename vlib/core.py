"""Common machinery: recorder, Hypothesis driver, known findings, evidence, replay.

Contract of the runner (vcheck.py):
  exit 0  property held on everything explored (KNOWN-FINDING lines possible)
  exit 1  + "VIOLATION property=<id> replay=<path>"  for a violation not listed
  exit 2  harness error (never a verdict)
"""
import collections
import hashlib
import json
import math
import os
import pickle
import sys
import time
import traceback

ROOT = os.path.dirname(os.path.dirname(os.path.abspath(__file__)))
REPO = os.environ.get("VERIF_REPO", "/repo")
REPO_PKG = os.path.join(os.path.realpath(REPO), "AegeanTools") + os.sep


# --------------------------------------------------------------------------
# JSON helpers: cases are plain JSON; non-finite floats and numpy scalars are
# encoded so that strict JSON parsers accept evidence and replay files.
def enc(o):
    import numpy as np
    if isinstance(o, dict):
        return {str(k): enc(v) for k, v in o.items()}
    if isinstance(o, (list, tuple)):
        return [enc(v) for v in o]
    if isinstance(o, (bool, np.bool_)):
        return bool(o)
    if isinstance(o, (int, np.integer)):
        return int(o)
    if isinstance(o, (float, np.floating)):
        o = float(o)
        if math.isnan(o):
            return {"__f": "nan"}
        if math.isinf(o):
            return {"__f": "inf" if o > 0 else "-inf"}
        return o
    if isinstance(o, np.ndarray):
        return enc(o.tolist())
    if o is None or isinstance(o, str):
        return o
    if isinstance(o, bytes):
        return {"__b": o.hex()}
    return repr(o)


def dec(o):
    if isinstance(o, dict):
        if set(o.keys()) == {"__f"}:
            return float(o["__f"])
        if set(o.keys()) == {"__b"}:
            return bytes.fromhex(o["__b"])
        return {k: dec(v) for k, v in o.items()}
    if isinstance(o, list):
        return [dec(v) for v in o]
    return o


def canon(case):
    return json.dumps(enc(case), sort_keys=True, separators=(",", ":"))


def chash(case):
    return hashlib.blake2b(canon(case).encode(), digest_size=8).digest()


def brief(case, limit=1500):
    """A sample for the evidence file: the case itself, or a truncated text."""
    e = enc(case)
    s = json.dumps(e, sort_keys=True)
    if len(s) <= limit:
        return e
    return {"truncated_json": s[:limit] + "...", "full_length": len(s)}


# --------------------------------------------------------------------------
class Res:
    """Outcome of checking one case."""

    def __init__(self):
        self.violations = []   # (clause, detail, tags)
        self.nontrivial = False
        self.labels = []
        self.excluded_known = 0
        self.ambiguous = 0
        self.key = None        # optional coarser distinctness key
        self.stats = {}        # name -> float appended to recorder stats

    def bad(self, clause, detail, **tags):
        self.violations.append((clause, str(detail)[:600], tags))

    def label(self, *names):
        self.labels.extend(names)

    def stat(self, name, value):
        self.stats.setdefault(name, []).append(float(value))


class Recorder:
    MAX_SAMPLES = 5
    MAX_VIOL_PER_BUCKET = 8

    def __init__(self, prop):
        self.prop = prop
        self.evaluations = 0
        self.nontrivial = set()
        self.labels = collections.Counter()
        self.samples = []
        self.violations = {}     # bucket -> list of dict
        self.viol_count = collections.Counter()
        self.excluded_known = 0
        self.ambiguous = 0
        self.stats = {}
        self.extra = {}
        self.exhaustive = None
        self._last = {}

    def record(self, test, case, res):
        self.evaluations += 1
        self.labels[test] += 1
        for lb in res.labels:
            self.labels[lb] += 1
        self.excluded_known += res.excluded_known
        self.ambiguous += res.ambiguous
        for k, v in res.stats.items():
            self.stats.setdefault(k, []).extend(v)
        if res.nontrivial:
            h = chash(res.key if res.key is not None else case)
            if h not in self.nontrivial:
                self.nontrivial.add(h)
                if len(self.samples) < self.MAX_SAMPLES:
                    self.samples.append({"test": test, "case": brief(case)})
        for clause, detail, tags in res.violations:
            bucket = "%s/%s" % (test, clause)
            if tags.get("bucket"):
                bucket += "/" + str(tags["bucket"])
            self.viol_count[bucket] += 1
            lst = self.violations.setdefault(bucket, [])
            if len(lst) < self.MAX_VIOL_PER_BUCKET:
                # the previous case of the same test is kept: if the code under test leaks state between calls the
                # violation only reproduces as the two-step history (previous case, this case)
                lst.append({"test": test, "clause": clause, "detail": detail,
                            "tags": enc(tags), "case": enc(case), "prev": self._last.get(test)})
        self._last[test] = enc(case)

    def dump(self, path):
        self._last = {}
        with open(path, "wb") as f:
            pickle.dump(self.__dict__, f)

    @classmethod
    def load(cls, path):
        r = cls("?")
        with open(path, "rb") as f:
            r.__dict__.update(pickle.load(f))
        return r

    def merge(self, o):
        self.evaluations += o.evaluations
        self.nontrivial |= o.nontrivial
        self.labels.update(o.labels)
        for s in o.samples:
            if len(self.samples) < self.MAX_SAMPLES:
                self.samples.append(s)
        for b, lst in o.violations.items():
            mine = self.violations.setdefault(b, [])
            mine.extend(lst[: self.MAX_VIOL_PER_BUCKET - len(mine)])
        self.viol_count.update(o.viol_count)
        self.excluded_known += o.excluded_known
        self.ambiguous += o.ambiguous
        for k, v in o.stats.items():
            self.stats.setdefault(k, []).extend(v)
        for k, v in o.extra.items():
            if isinstance(v, (int, float)) and isinstance(self.extra.get(k), (int, float)):
                self.extra[k] += v
            else:
                self.extra.setdefault(k, v)
        if o.exhaustive is not None:
            self.exhaustive = (self.exhaustive is None or self.exhaustive) and o.exhaustive


# --------------------------------------------------------------------------
def repo_frame(tb):
    """Innermost traceback frame inside /repo/AegeanTools, or None."""
    found = None
    for fs in traceback.extract_tb(tb):
        fn = os.path.realpath(fs.filename)
        if fn.startswith(REPO_PKG):
            found = "%s:%s" % (os.path.relpath(fn, os.path.realpath(REPO)), fs.name)
    return found


def workdir(prefix):
    """An empty scratch directory whose PATH IS THE SAME for every case of this process (unlike mkdtemp): file names recur
    from case to case, so anything the package remembers about a path between calls (a cache keyed on the file name)
    meets a file with other content.  Such a violation does not reproduce from the case alone; the runner then
    re-executes it after its predecessor and stores the two-call history."""
    import shutil
    import tempfile
    base = os.path.join(tempfile.gettempdir(), "work_%s%d" % (prefix, os.getpid()))
    shutil.rmtree(base, ignore_errors=True)
    os.makedirs(base)
    return base


class HarnessError(Exception):
    pass


class CaseTimeout(BaseException):
    """a single case exceeded the per-case budget: the case is inconclusive (counted), never a violation"""


CASE_TIMEOUT_S = [0]      # set by the runner from the check module's CASE_TIMEOUT_S


def _alarm(signum, frame):
    raise CaseTimeout()


def run_check(check, case):
    """Run check(case) -> Res; exceptions raised from inside AegeanTools that
    the check did not anticipate become 'no-exception' violations, anything
    else is a harness error."""
    import signal
    budget = CASE_TIMEOUT_S[0]
    try:
        if budget:
            signal.signal(signal.SIGALRM, _alarm)
            signal.alarm(int(budget))
        try:
            res = check(case)
        finally:
            if budget:
                signal.alarm(0)
    except CaseTimeout:
        res = Res()
        res.label("inconclusive-case-timeout")
        res.ambiguous += 1
        return res
    except HarnessError:
        raise
    except Exception as e:  # noqa
        fr = repo_frame(e.__traceback__)
        if fr is None:
            raise
        res = Res()
        res.bad("no-exception", "%s: %s at %s" % (type(e).__name__, e, fr),
                bucket="%s@%s" % (type(e).__name__, fr))
    if not isinstance(res, Res):
        raise HarnessError("check returned %r" % (res,))
    return res


def drive(rec, name, strategy, check, n, seed, suppress_slow=True, stop_after=None):
    """Generate n cases from strategy with Hypothesis and record the outcome of
    each; never raises for a property violation (collect, then shrink)."""
    import hypothesis
    from hypothesis import HealthCheck, Phase, given, settings
    if n <= 0:
        return
    sup = [HealthCheck.too_slow, HealthCheck.data_too_large] if suppress_slow else []
    sup.append(HealthCheck.large_base_example)

    @hypothesis.seed(seed)
    @settings(max_examples=n, database=None, deadline=None,
              phases=[Phase.generate], derandomize=False,
              report_multiple_bugs=False, suppress_health_check=sup)
    @given(strategy)
    def t(case):
        res = run_check(check, case)
        rec.record(name, case, res)

    t()


def shrink(name, strategy, check, bucket, n, seed, prefer=None):
    """Second pass: raise only for `bucket`, let Hypothesis shrink, return the
    minimal case (or None if the bucket was not hit again)."""
    import hypothesis
    from hypothesis import HealthCheck, Phase, given, settings
    holder = {}

    class Hit(Exception):
        pass

    @hypothesis.seed(seed)
    @settings(max_examples=n, database=None, deadline=None,
              phases=[Phase.generate, Phase.shrink], derandomize=False,
              report_multiple_bugs=False,
              suppress_health_check=list(HealthCheck))
    @given(strategy)
    def t(case):
        res = run_check(check, case)
        for clause, detail, tags in res.violations:
            b = "%s/%s" % (name, clause)
            if tags.get("bucket"):
                b += "/" + str(tags["bucket"])
            if b == bucket:
                holder["case"] = {"test": name, "clause": clause, "detail": detail,
                                  "tags": enc(tags), "case": enc(case)}
                raise Hit()

    try:
        t()
    except Hit:
        pass
    except Exception as e:  # hypothesis wraps; look for our marker
        if "case" not in holder:
            raise
    return holder.get("case")


# --------------------------------------------------------------------------
def load_known():
    p = os.path.join(ROOT, "known_findings.json")
    if not os.path.exists(p):
        return []
    with open(p) as f:
        return json.load(f).get("findings", [])


def matches(entry, prop, viol):
    if entry.get("property") != prop or entry.get("status") != "open":
        return False
    m = entry.get("match", {})
    if "test" in m and m["test"] != viol["test"]:
        return False
    if "clause" in m and m["clause"] != viol["clause"]:
        return False
    if "clause_prefix" in m and not str(viol["clause"]).startswith(m["clause_prefix"]):
        return False
    tags = viol.get("tags", {})
    for k, v in m.get("tags", {}).items():
        if tags.get(k) != v:
            return False
    return True


def summarise_stats(stats):
    import numpy as np
    out = {}
    for k, v in stats.items():
        a = np.asarray(v, dtype=float)
        a = a[np.isfinite(a)]
        if a.size:
            out[k] = {"n": int(a.size), "max_abs": float(np.max(np.abs(a))),
                      "rms": float(np.sqrt(np.mean(a ** 2))),
                      "median": float(np.median(a))}
    return out


def write_evidence(prop, tier, seed, rec, mod, wall, nviol, known_lines):
    cov = {
        "evaluations": int(rec.evaluations),
        "distinct_nontrivial": int(len(rec.nontrivial)),
        "rule": getattr(mod, "RULE", ""),
        "samples": rec.samples[: Recorder.MAX_SAMPLES],
        "labels": dict(sorted(rec.labels.items())),
        "excluded_known": int(rec.excluded_known),
        "ambiguous_skipped": int(rec.ambiguous),
        "violation_buckets": dict(rec.viol_count),
        "known_findings_reproduced": known_lines,
    }
    st = summarise_stats(rec.stats)
    if st:
        cov["stats"] = st
    if rec.extra:
        cov["extra"] = enc(rec.extra)
    if rec.exhaustive is not None:
        cov["exhaustive"] = bool(rec.exhaustive)
    ev = {
        "property_id": prop,
        "tier": tier,
        "seed": int(seed),
        "level": "exploration",
        "coverage": cov,
        "assumptions": list(getattr(mod, "ASSUMPTIONS", [])) + [
            "numpy/scipy/astropy/healpy/lmfit/scikit-learn and IEEE-754 arithmetic are trusted",
            "the harness's own reference implementations (vlib/refs.py) are trusted",
        ],
        "wall_s": round(float(wall), 2),
        "violations": int(nviol),
    }
    os.makedirs(os.path.join(ROOT, "evidence"), exist_ok=True)
    path = os.path.join(ROOT, "evidence", "%s.json" % prop)
    tmp = path + ".tmp"
    with open(tmp, "w") as f:
        json.dump(ev, f, indent=1, sort_keys=True, allow_nan=False)
    os.replace(tmp, path)
    return ev
