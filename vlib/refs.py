"""Reference implementations written for the harness. None of them imports
AegeanTools; they are the independent side of every differential oracle."""
import math

import numpy as np

D2R = math.pi / 180.0
R2D = 180.0 / math.pi


# ------------------------------------------------------------------ sphere
def sph2vec(ra, dec):
    ra = np.asarray(ra, dtype=float) * D2R
    dec = np.asarray(dec, dtype=float) * D2R
    c = np.cos(dec)
    return np.stack([c * np.cos(ra), c * np.sin(ra), np.sin(dec)], axis=-1)


def vec2sph(v):
    v = np.asarray(v, dtype=float)
    ra = np.arctan2(v[..., 1], v[..., 0]) * R2D
    dec = np.arctan2(v[..., 2], np.hypot(v[..., 0], v[..., 1])) * R2D
    return np.mod(ra, 360.0), dec


def vsep(ra1, dec1, ra2, dec2):
    """Angular separation (deg): atan2(|u x v|, u.v); well conditioned at 0 and 180."""
    u = sph2vec(ra1, dec1)
    v = sph2vec(ra2, dec2)
    c = np.cross(u, v)
    return np.arctan2(np.sqrt(np.sum(c * c, axis=-1)), np.sum(u * v, axis=-1)) * R2D


def local_basis(ra, dec):
    """unit vectors towards North and East at (ra, dec)"""
    ra = np.asarray(ra, dtype=float) * D2R
    dec = np.asarray(dec, dtype=float) * D2R
    n = np.stack([-np.sin(dec) * np.cos(ra), -np.sin(dec) * np.sin(ra), np.cos(dec)], axis=-1)
    e = np.stack([-np.sin(ra), np.cos(ra), np.zeros_like(ra)], axis=-1)
    return n, e


def vbear(ra1, dec1, ra2, dec2):
    """Position angle (deg, East of North, (-180,180]) of point 2 seen from point 1."""
    n, e = local_basis(ra1, dec1)
    v = sph2vec(ra2, dec2)
    return np.arctan2(np.sum(v * e, axis=-1), np.sum(v * n, axis=-1)) * R2D


def vdest(ra, dec, r, t):
    """Point at distance r (deg) along initial bearing t (deg) from (ra, dec)."""
    p = sph2vec(ra, dec)
    n, e = local_basis(ra, dec)
    r = np.asarray(r, dtype=float) * D2R
    t = np.asarray(t, dtype=float) * D2R
    d = n * np.cos(t)[..., None] + e * np.sin(t)[..., None]
    q = p * np.cos(r)[..., None] + d * np.sin(r)[..., None]
    return vec2sph(q)


def angdiff(a, b, period=360.0):
    """smallest signed difference a-b modulo period"""
    d = (np.asarray(a, dtype=float) - np.asarray(b, dtype=float)) % period
    return np.where(d > period / 2, d - period, d)


# --------------------------------------------------------------- FITS WCS
class ZWCS(object):
    """Zenithal FITS-WCS (SIN/TAN/ZEA/ARC/STG; Calabretta & Greisen 2002), LONPOLE=180 (valid for CRVAL2 < 90).
    Pixel coordinates are FITS 1-based (axis1, axis2).  Linear part: CD = R(rot) . diag(cdelt1, cdelt2), i.e. the CROTA2
    convention; rot = 0 is the rotation-free CDELT header."""

    PROJ = ("SIN", "TAN", "ZEA", "ARC", "STG")

    def __init__(self, proj, crval1, crval2, crpix1, crpix2, cdelt1, cdelt2, rot=0.0):
        assert proj in self.PROJ
        self.proj = proj
        self.crval1, self.crval2 = float(crval1), float(crval2)
        self.crpix1, self.crpix2 = float(crpix1), float(crpix2)
        self.cdelt1, self.cdelt2 = float(cdelt1), float(cdelt2)
        self.rot = float(rot)
        cr, sr = (math.cos(self.rot * D2R), math.sin(self.rot * D2R)) if self.rot else (1.0, 0.0)
        self.cd = np.array([[self.cdelt1 * cr, -self.cdelt2 * sr], [self.cdelt1 * sr, self.cdelt2 * cr]])
        self.icd = np.linalg.inv(self.cd)

    @classmethod
    def from_header(cls, h):
        proj = str(h["CTYPE1"])[-3:]
        if "CDELT1" in h:
            return cls(proj, h["CRVAL1"], h["CRVAL2"], h["CRPIX1"], h["CRPIX2"], h["CDELT1"], h["CDELT2"])
        c11, c12, c21, c22 = h["CD1_1"], h.get("CD1_2", 0.0), h.get("CD2_1", 0.0), h["CD2_2"]
        if c12 == 0.0 and c21 == 0.0:
            return cls(proj, h["CRVAL1"], h["CRVAL2"], h["CRPIX1"], h["CRPIX2"], c11, c22)
        rot = math.atan2(c21, c11) * R2D if c11 or c21 else 0.0
        # cdelt1 < 0 by convention here: (c11, c21) = cdelt1 (cos r, sin r)
        rot = (rot + 180.0) % 360.0
        cdelt1 = -math.hypot(c11, c21)
        cr, sr = math.cos(rot * D2R), math.sin(rot * D2R)
        cdelt2 = c22 * cr - c12 * sr
        return cls(proj, h["CRVAL1"], h["CRVAL2"], h["CRPIX1"], h["CRPIX2"], cdelt1, cdelt2, rot)

    def header_cards(self, cd=False):
        c = {"CTYPE1": "RA---" + self.proj, "CTYPE2": "DEC--" + self.proj,
             "CRVAL1": self.crval1, "CRVAL2": self.crval2,
             "CRPIX1": self.crpix1, "CRPIX2": self.crpix2,
             "CUNIT1": "deg", "CUNIT2": "deg"}
        if cd or self.rot:
            c.update({"CD1_1": float(self.cd[0, 0]), "CD1_2": float(self.cd[0, 1]), "CD2_1": float(self.cd[1, 0]),
                      "CD2_2": float(self.cd[1, 1])})
        else:
            c.update({"CDELT1": self.cdelt1, "CDELT2": self.cdelt2})
        return c

    # colatitude c(rho) (rad) with rho = R in radians
    def _colat(self, rho):
        p = self.proj
        if p == "TAN":
            return np.arctan(rho)
        if p == "SIN":
            return np.arcsin(np.clip(rho, -1, 1))
        if p == "ARC":
            return rho
        if p == "STG":
            return 2 * np.arctan(rho / 2)
        if p == "ZEA":
            return 2 * np.arcsin(np.clip(rho / 2, -1, 1))

    def _rho(self, c):
        p = self.proj
        if p == "TAN":
            return np.tan(c)
        if p == "SIN":
            return np.sin(c)
        if p == "ARC":
            return c
        if p == "STG":
            return 2 * np.tan(c / 2)
        if p == "ZEA":
            return 2 * np.sin(c / 2)

    def pix2sky(self, p1, p2):
        d1 = np.asarray(p1, dtype=float) - self.crpix1
        d2 = np.asarray(p2, dtype=float) - self.crpix2
        if self.rot:
            x = (self.cd[0, 0] * d1 + self.cd[0, 1] * d2) * D2R
            y = (self.cd[1, 0] * d1 + self.cd[1, 1] * d2) * D2R
        else:
            x = d1 * self.cdelt1 * D2R
            y = d2 * self.cdelt2 * D2R
        rho = np.hypot(x, y)
        c = self._colat(rho)
        with np.errstate(invalid="ignore", divide="ignore"):
            ux = np.where(rho > 0, x / rho, 0.0)
            uy = np.where(rho > 0, y / rho, 0.0)
        sc, cc = np.sin(c), np.cos(c)        # sc = cos(theta), cc = sin(theta)
        sdp, cdp = math.sin(self.crval2 * D2R), math.cos(self.crval2 * D2R)
        sin_d = cc * sdp + sc * cdp * uy
        a = sc * ux                          # cos(dec) sin(dra)
        b = cc * cdp - sc * sdp * uy         # cos(dec) cos(dra)
        ra = self.crval1 + np.arctan2(a, b) * R2D
        dec = np.arctan2(sin_d, np.hypot(a, b)) * R2D
        return np.mod(ra, 360.0), dec

    def sky2pix(self, ra, dec):
        dra = (np.asarray(ra, dtype=float) - self.crval1) * D2R
        d = np.asarray(dec, dtype=float) * D2R
        dp = self.crval2 * D2R
        # components of the direction in the native frame (pole = reference point)
        a = np.cos(d) * np.sin(dra)                                           # = cos(theta) ux
        b = np.sin(d - dp) + 2 * np.cos(d) * math.sin(dp) * np.sin(dra / 2) ** 2  # = cos(theta) uy
        s = np.sin(d) * math.sin(dp) + np.cos(d) * math.cos(dp) * np.cos(dra)     # = sin(theta)
        r = np.hypot(a, b)
        c = np.arctan2(r, s)
        rho = self._rho(c)
        with np.errstate(invalid="ignore", divide="ignore"):
            ux = np.where(r > 0, a / r, 0.0)
            uy = np.where(r > 0, b / r, 0.0)
        x, y = rho * ux * R2D, rho * uy * R2D
        if self.rot:
            return (self.icd[0, 0] * x + self.icd[0, 1] * y + self.crpix1, self.icd[1, 0] * x + self.icd[1, 1] * y + self.crpix2)
        return x / self.cdelt1 + self.crpix1, y / self.cdelt2 + self.crpix2


# ----------------------------------------------------------------- islands
def bfs_islands(snr, flood, seed):
    """8-connected groups of finite pixels with snr >= flood that own a pixel with snr > seed.
    Pure Python flood fill. Returns (kept, rejected): lists of frozensets of (row, col)."""
    snr = np.asarray(snr, dtype=float)
    nr, nc = snr.shape
    ok = [[bool(np.isfinite(snr[r, c]) and snr[r, c] >= flood) for c in range(nc)] for r in range(nr)]
    seen = [[False] * nc for _ in range(nr)]
    kept, rejected = [], []
    for r in range(nr):
        for c in range(nc):
            if not ok[r][c] or seen[r][c]:
                continue
            stack = [(r, c)]
            seen[r][c] = True
            group = []
            while stack:
                pr, pc = stack.pop()
                group.append((pr, pc))
                for dr in (-1, 0, 1):
                    for dc in (-1, 0, 1):
                        qr, qc = pr + dr, pc + dc
                        if 0 <= qr < nr and 0 <= qc < nc and ok[qr][qc] and not seen[qr][qc]:
                            seen[qr][qc] = True
                            stack.append((qr, qc))
            g = frozenset(group)
            if any(snr[p] > seed for p in group):
                kept.append(g)
            else:
                rejected.append(g)
    return kept, rejected
