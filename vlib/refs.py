"""Reference implementations written for the harness. None of them imports
AegeanTools; they are the independent side of every differential oracle."""
import math

import numpy as np

D2R = math.pi / 180.0
R2D = 180.0 / math.pi


# ------------------------------------------------------------------ sphere
def sph2vec(ra, dec):
    ra = np.asarray(ra, dtype=float) * D2R
    dec = np.asarray(dec, dtype=float) * D2R
    c = np.cos(dec)
    return np.stack([c * np.cos(ra), c * np.sin(ra), np.sin(dec)], axis=-1)


def vec2sph(v):
    v = np.asarray(v, dtype=float)
    ra = np.arctan2(v[..., 1], v[..., 0]) * R2D
    dec = np.arctan2(v[..., 2], np.hypot(v[..., 0], v[..., 1])) * R2D
    return np.mod(ra, 360.0), dec


def vsep(ra1, dec1, ra2, dec2):
    """Angular separation (deg): atan2(|u x v|, u.v); well conditioned at 0 and 180."""
    u = sph2vec(ra1, dec1)
    v = sph2vec(ra2, dec2)
    c = np.cross(u, v)
    return np.arctan2(np.sqrt(np.sum(c * c, axis=-1)), np.sum(u * v, axis=-1)) * R2D


def local_basis(ra, dec):
    """unit vectors towards North and East at (ra, dec)"""
    ra = np.asarray(ra, dtype=float) * D2R
    dec = np.asarray(dec, dtype=float) * D2R
    n = np.stack([-np.sin(dec) * np.cos(ra), -np.sin(dec) * np.sin(ra), np.cos(dec)], axis=-1)
    e = np.stack([-np.sin(ra), np.cos(ra), np.zeros_like(ra)], axis=-1)
    return n, e


def vbear(ra1, dec1, ra2, dec2):
    """Position angle (deg, East of North, (-180,180]) of point 2 seen from point 1."""
    n, e = local_basis(ra1, dec1)
    v = sph2vec(ra2, dec2)
    return np.arctan2(np.sum(v * e, axis=-1), np.sum(v * n, axis=-1)) * R2D


def vdest(ra, dec, r, t):
    """Point at distance r (deg) along initial bearing t (deg) from (ra, dec)."""
    p = sph2vec(ra, dec)
    n, e = local_basis(ra, dec)
    r = np.asarray(r, dtype=float) * D2R
    t = np.asarray(t, dtype=float) * D2R
    d = n * np.cos(t)[..., None] + e * np.sin(t)[..., None]
    q = p * np.cos(r)[..., None] + d * np.sin(r)[..., None]
    return vec2sph(q)


def angdiff(a, b, period=360.0):
    """smallest signed difference a-b modulo period"""
    d = (np.asarray(a, dtype=float) - np.asarray(b, dtype=float)) % period
    return np.where(d > period / 2, d - period, d)
