"""C12 - region exports (MOC FITS, DS9 reg, .mim) describe exactly the region's sky area"""
import copy

import hypothesis
from hypothesis import HealthCheck, Phase, settings
from hypothesis.stateful import run_state_machine_as_test

from checks import c08
from vlib import regionhist
from vlib.core import Res

PROP = "C12"
SHARDS = {"quick": 8, "thorough": 16}
RULE = ("Hypothesis RuleBasedStateMachine sharing the mutating/query rules of C08 (depth 1..12; empty, single-pixel, whole-sky "
        "and multi-level regions), plus export rules taken at arbitrary points of the history, in particular right after "
        "get_demoted/sky_within: write_fits (also via MIMAS.mim2fits) read back with astropy and decoded from NUNIQ, write_reg "
        "(also via mim2reg; <= 200 stored pixels) parsed and matched to HEALPix pixel outlines, save -> load. Oracle: the same "
        "set model as C08. Non-trivial = an export taken after a query that followed a mutation, or of a region stored on >= 2 "
        "levels; distinct = distinct history.")
ASSUMPTIONS = [
    "DS9 vertices are matched to pixel corners as unordered sets within 0.1 arcsec (the format rounds RA to 0.01 s = 0.075 arcsec)",
    "DS9 export is only checked for regions with <= 200 stored pixels (astropy SkyCoord formatting per vertex is slow)",
]
MAXD = {"quick": 12, "thorough": 12}


def history_result(h):
    res = Res()
    for clause, detail, tags in h.violations[:1]:
        res.bad(clause, detail, **{k: v for k, v in tags.items() if k in ("bucket",)})
    fl = h.flags
    res.nontrivial = bool(fl["exports"] and (fl["export_after_query"] or fl["multi_level_export"]))
    for k in ("export_after_query", "multi_level_export"):
        if fl[k]:
            res.label(k.replace("_", "-"))
    res.label("depth-%d" % h.D)
    res.stat("exports", fl["exports"])
    return res


def check_history(case):
    h = regionhist.run_history(case, exports=True)
    return history_result(h)


def machine_custom(rec, name, tier, seed, shard, nshards, n):
    def cb(h):
        rec.record(name, h.case(), history_result(h))
    M = c08.make_machine(cb, MAXD[tier], minD=1, exports=True, test=name)
    run_state_machine_as_test(
        hypothesis.seed(seed)(M),
        settings=settings(max_examples=n, stateful_step_count=14, database=None, deadline=None,
                          phases=[Phase.generate], derandomize=False, report_multiple_bugs=False,
                          suppress_health_check=list(HealthCheck)))


def machine_shrink(name, bucket, n, seed, tier):
    holder = {}

    def cb(h):
        clause, detail, tags = h.violations[0]
        holder["case"] = {"test": name, "clause": clause, "detail": detail, "tags": {}, "case": copy.deepcopy(h.case())}
    M = c08.make_machine(cb, MAXD[tier], raise_bucket=bucket, minD=1, exports=True, test=name)
    try:
        run_state_machine_as_test(
            hypothesis.seed(seed)(M),
            settings=settings(max_examples=n, stateful_step_count=14, database=None, deadline=None,
                              phases=[Phase.generate, Phase.shrink], derandomize=False, report_multiple_bugs=False,
                              suppress_health_check=list(HealthCheck)))
    except AssertionError:
        pass
    return holder.get("case")


TESTS = {
    "exports": {"custom": machine_custom, "check": check_history, "shrink": machine_shrink,
                "n": {"quick": 600, "thorough": 12000}},
}
