"""C18 - catalogues survive a write/read round trip in every readable format (catalogs.py)"""
import glob
import math
import os
import shutil
import copy
import sqlite3
import tempfile
import uuid as uuidlib

import numpy as np
from hypothesis import strategies as st

from AegeanTools import catalogs
from AegeanTools.angle_tools import dec2dms, dec2hms
from AegeanTools.models import ComponentSource, IslandSource, SimpleSource
from vlib.core import Res, workdir

PROP = "C18"
SHARDS = {"quick": 8, "thorough": 16}
RULE = ("Hypothesis: catalogues of 0..300 components + islands + simple sources (thorough: up to 3000) whose numeric fields "
        "are drawn from a seeded generator over +-[1e-30,1e30] (float32 range for FITS), negative fluxes, NaN and -1 markers at "
        "generated rates, Python/numpy float64/float32/int scalar types as source_finder produces them, coordinate strings "
        "from the repo's own formatters (non-finite coordinates give XX:XX:XX.XX, optionally in the FIRST row), uuid4 strings "
        "optionally truncated to varying lengths (>= 9 characters so they contain a hyphen), plus explicit (row, attribute, "
        "value) overrides drawn by Hypothesis; formats csv/tab/tex/vot/xml/fits/db, with/without column prefix and metadata. "
        "Oracle: write -> load_table -> table_to_source_list, field by field. Non-trivial = >= 2 source types, or a NaN/-1 "
        "field, or a first row whose string lengths/types differ from a later row; distinct = distinct case.")
ASSUMPTIONS = [
    "ra_str/dec_str are produced by the repo's formatters (never empty), uuids contain a hyphen (cannot be read as numbers)",
    "attributes that are numpy.float32 in memory are compared at single precision (the datum has no more)",
    "sqlite stores NaN as NULL, accepted as equal to NaN",
    "non-finite values other than NaN (inf) are not generated",
]

FLOAT_ATTRS = {
    "comp": ["background", "local_rms", "ra", "err_ra", "dec", "err_dec", "peak_flux", "err_peak_flux", "int_flux",
             "err_int_flux", "a", "err_a", "b", "err_b", "pa", "err_pa", "residual_mean", "residual_std", "psf_a", "psf_b",
             "psf_pa"],
    "isle": ["background", "local_rms", "ra", "dec", "peak_flux", "int_flux", "err_int_flux", "eta", "max_angular_size",
             "pa", "area", "beam_area"],
    "simp": ["background", "local_rms", "ra", "dec", "peak_flux", "err_peak_flux", "peak_pixel", "a", "b", "pa"],
}
INT_ATTRS = {"comp": ["island", "source", "flags"], "isle": ["island", "components", "x_width", "y_width", "pixels", "flags"],
             "simp": ["flags"]}
STR_ATTRS = {"comp": ["ra_str", "dec_str", "uuid"], "isle": ["ra_str", "dec_str", "uuid"], "simp": ["uuid"]}
CLS = {"comp": ComponentSource, "isle": IslandSource, "simp": SimpleSource}
F32_ATTRS = ("background", "local_rms", "peak_pixel", "residual_mean", "residual_std")
FORMATS = ["csv", "tab", "tex", "vot", "xml", "fits", "db"]

f = st.floats
override_value = st.one_of(
    st.just(float("nan")), st.just(-1), st.just(-1.0), st.integers(-5, 5),
    st.tuples(f(-30, 30), st.booleans()).map(lambda t: (10 ** t[0]) * (-1 if t[1] else 1)),
    f(-1e3, 1e3), st.sampled_from([0.0, -0.0, 1e-30, -1e30, 1e30, 123456789.123456789, 0.1, 1 / 3.0]))

case_strategy = st.fixed_dictionaries({
    "n": st.tuples(st.one_of(st.integers(0, 12), st.integers(0, 300)), st.integers(0, 8), st.integers(0, 8)),
    "seed": st.integers(0, 2 ** 31 - 1),
    "fmt": st.sampled_from(FORMATS),
    "prefix": st.sampled_from([None, None, "x", "GLEAM"]),
    "meta": st.sampled_from([None, {"OBSERVER": "verif"}, {"A": "b c", "PROGRAM": "vcheck"}]),
    "nan_rate": st.sampled_from([0.0, 0.0, 0.05, 0.3]),
    "minus1_rate": st.sampled_from([0.0, 0.1, 1.0]),
    "f32": st.booleans(),
    "int_as_numpy": st.sampled_from([False, False, True, "int32", "int16", "uint8"]),     # True = int64
    "first_nonfinite": st.booleans(),
    "uuid_mode": st.sampled_from(["full", "varying", "first_short"]),
    "overrides": st.lists(st.tuples(st.sampled_from(["comp", "isle", "simp"]), st.integers(0, 20), st.integers(0, 20),
                                    override_value), max_size=6),
})


def make_catalog(c, big=1):
    rng = np.random.default_rng(c["seed"])
    fits_range = c["fmt"] == "fits"
    cat = {"comp": [], "isle": [], "simp": []}
    counts = dict(zip(("comp", "isle", "simp"), c["n"]))
    counts["comp"] *= big
    for kind in ("comp", "isle", "simp"):
        for k in range(counts[kind]):
            s = CLS[kind]()
            for a in FLOAT_ATTRS[kind]:
                mag = 10 ** rng.uniform(-30, 30) if rng.random() < 0.3 else rng.normal() * 10
                v = float(mag * rng.choice([1, -1]))
                if rng.random() < c["nan_rate"]:
                    v = float("nan")
                if a.startswith("err_") and rng.random() < c["minus1_rate"]:
                    v = -1 if rng.random() < 0.5 else -1.0
                if c["f32"] and a in F32_ATTRS and isinstance(v, float):
                    v = np.float32(v)
                elif isinstance(v, float) and rng.random() < 0.5:
                    v = np.float64(v)
                setattr(s, a, v)
            for a in INT_ATTRS[kind]:
                v = int(rng.integers(0, 128)) if a == "flags" else int(rng.integers(0, 100000))
                kind_ = c["int_as_numpy"]
                if kind_ is True:
                    v = np.int64(v)
                elif kind_ == "int32":
                    v = np.int32(v)          # what a FITS 'J' column hands back
                elif kind_ == "int16":
                    v = np.int16(v % 30000)
                elif kind_ == "uint8":
                    v = np.uint8(v % 250)
                setattr(s, a, v)
            ra = float(rng.uniform(0, 360)) if not math.isnan(float(getattr(s, "ra"))) else float("nan")
            dec = float(rng.uniform(-90, 90)) if not math.isnan(float(getattr(s, "dec"))) else float("nan")
            if k == 0 and c["first_nonfinite"]:
                dec = float("nan")
                if rng.random() < 0.5:
                    ra = float("nan")
            s.ra, s.dec = ra, dec
            u = str(uuidlib.UUID(int=int(rng.integers(0, 2 ** 62)) << 66 | int(rng.integers(0, 2 ** 62)), version=4))
            if c["uuid_mode"] == "varying":
                u = u[: int(rng.integers(9, 37))]
            elif c["uuid_mode"] == "first_short" and k == 0:
                u = u[:9]
            s.uuid = u
            cat[kind].append(s)
    for kind, row, ai, val in c["overrides"]:
        if not cat[kind]:
            continue
        s = cat[kind][row % len(cat[kind])]
        attrs = FLOAT_ATTRS[kind]
        a = attrs[ai % len(attrs)]
        if a in ("ra", "dec"):
            if isinstance(val, float) and math.isnan(val):
                setattr(s, a, val)
            continue
        if fits_range and isinstance(val, float) and val != 0 and not math.isnan(val) and not (1e-30 <= abs(val) <= 1e30):
            continue
        setattr(s, a, val)
    for kind in ("comp", "isle"):
        for s in cat[kind]:
            s.ra_str = dec2hms(s.ra)
            s.dec_str = dec2dms(s.dec)
    # interleave the types in the list handed to save_catalog (relative order within a type is what must survive)
    full = []
    order = [k for k in ("comp", "isle", "simp") for _ in cat[k]]
    rng.shuffle(order)
    it = {k: iter(v) for k, v in cat.items()}
    for k in order:
        full.append(next(it[k]))
    return cat, full


def same_number(orig, back, single):
    """orig: value stored in the source object; back: value read from the file"""
    try:
        b = float(back)
    except (TypeError, ValueError):
        return False
    o = float(orig)
    if math.isnan(o):
        return math.isnan(b)
    if isinstance(orig, np.float32) or single:
        with np.errstate(over="ignore"):
            return bool(np.float32(b) == np.float32(o))
    return b == o


def compare_sources(kind, orig, back, res, fmt, single):
    if len(orig) != len(back):
        res.bad("row-count", "%s %s: wrote %d rows, read %d" % (fmt, kind, len(orig), len(back)), fmt=fmt)
        return
    for k, (o, b) in enumerate(zip(orig, back)):
        for a in INT_ATTRS[kind]:
            try:
                ok = int(getattr(b, a)) == int(getattr(o, a)) and float(getattr(b, a)) == float(getattr(o, a))
            except (TypeError, ValueError):
                ok = False
            if fmt == "db" and not isinstance(getattr(b, a), int):
                ok = False      # "the same rows": a number stored as text ('10') sorts and compares differently in SQL
            if not ok:
                res.bad("int-field", "%s %s row %d: %s wrote %r read %r" % (fmt, kind, k, a, getattr(o, a), getattr(b, a)), fmt=fmt)
                return
        for a in STR_ATTRS[kind]:
            if str(getattr(b, a)) != str(getattr(o, a)):
                res.bad("string-field", "%s %s row %d: %s wrote %r read %r" % (fmt, kind, k, a, getattr(o, a), getattr(b, a)),
                        fmt=fmt, attr=a)
                return
        for a in FLOAT_ATTRS[kind]:
            if not same_number(getattr(o, a), getattr(b, a), single) or (fmt == "db" and isinstance(getattr(b, a), (str, bytes))):
                res.bad("float-field", "%s %s row %d: %s wrote %r read %r" % (fmt, kind, k, a, getattr(o, a), getattr(b, a)),
                        fmt=fmt, attr="err" if a.startswith("err_") else "value")
                return


def check_case(c, big=1):
    res = Res()
    cat, full = make_catalog(c, big)
    # what is read back is compared with the values the caller HAD: a snapshot taken before the writer sees the objects
    snap = copy.deepcopy(cat)
    fmt = c["fmt"]
    d = workdir("c18_")
    try:
        base = os.path.join(d, "cat." + fmt)
        meta = dict(c["meta"]) if c["meta"] else None
        if fmt == "db":
            catalogs.save_catalog(base, full, meta=meta)
            if not os.path.exists(base):
                res.bad("db-missing", "no database written")
                return res
            conn = sqlite3.connect(base)
            try:
                tables = set(r[0] for r in conn.execute("SELECT name FROM sqlite_master WHERE type='table'"))
                for kind, tn in (("comp", "components"), ("isle", "islands"), ("simp", "simples")):
                    if bool(cat[kind]) != (tn in tables):
                        res.bad("db-tables", "table %s present=%s for %d sources" % (tn, tn in tables, len(cat[kind])))
                        continue
                    if not cat[kind]:
                        continue
                    names = CLS[kind].names
                    rows = conn.execute("SELECT %s FROM %s ORDER BY rowid" % (",".join(names), tn)).fetchall()
                    back = []
                    for r in rows:
                        s = CLS[kind]()
                        for nme, v in zip(names, r):
                            setattr(s, nme, float("nan") if v is None else v)
                        back.append(s)
                    compare_sources(kind, snap[kind], back, res, fmt, False)
            finally:
                conn.close()
        else:
            catalogs.save_catalog(base, full, meta=meta, prefix=c["prefix"])
            written = sorted(os.path.basename(p) for p in glob.glob(os.path.join(d, "*")))
            expect = sorted("cat_%s.%s" % (k, fmt) for k in ("comp", "isle", "simp") if cat[k])
            if written != expect:
                res.bad("file-naming", "wrote %r, expected %r" % (written, expect), fmt=fmt)
                return res
            for kind in ("comp", "isle", "simp"):
                if not cat[kind]:
                    continue
                table = catalogs.load_table(os.path.join(d, "cat_%s.%s" % (kind, fmt)))
                if c["prefix"]:
                    pre = c["prefix"] + "_"
                    if not all(n.startswith(pre) for n in table.colnames):
                        res.bad("prefix", "columns %r do not all start with %r" % (table.colnames[:4], pre), fmt=fmt)
                        continue
                    table.rename_columns(table.colnames, [n[len(pre):] for n in table.colnames])
                missing = [n for n in CLS[kind].names if n not in table.colnames]
                if missing:
                    res.bad("columns", "%s %s: columns missing after read: %r" % (fmt, kind, missing), fmt=fmt)
                    continue
                back = catalogs.table_to_source_list(table, src_type=CLS[kind])
                compare_sources(kind, snap[kind], back, res, fmt, fmt == "fits")
    finally:
        shutil.rmtree(d, ignore_errors=True)
    ntypes = sum(1 for k in cat if cat[k])
    anynan = c["nan_rate"] > 0 or c["minus1_rate"] > 0 or c["first_nonfinite"]
    res.nontrivial = bool(sum(c["n"]) > 0 and (ntypes >= 2 or anynan or c["uuid_mode"] == "first_short"))
    res.label("fmt-" + fmt)
    if c["prefix"]:
        res.label("prefix")
    if c["first_nonfinite"]:
        res.label("first-row-nonfinite")
    if sum(c["n"]) == 0:
        res.label("empty")
    return res


def check_big(c):
    return check_case(c, big=10)


TESTS = {
    "roundtrip": {"strategy": lambda tier: case_strategy, "check": check_case,
                  "n": {"quick": 1500, "thorough": 20000}},
    "big": {"strategy": lambda tier: case_strategy.map(lambda c: dict(c, n=(100 + c["n"][0] % 200, c["n"][1], c["n"][2]))),
            "check": check_big,
            "n": {"quick": 40, "thorough": 400}},
}
