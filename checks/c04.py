"""C04 - analytic model derivatives and per-parameter 1-sigma errors (fitting.jacobian, lmfit_jacobian, covar_errors)"""
import math

import lmfit
import numpy as np
from hypothesis import strategies as st

from AegeanTools import fitting
from vlib.core import Res

PROP = "C04"
SHARDS = {"quick": 8, "thorough": 16}
RULE = ("Hypothesis: 1..4 elliptical Gaussians (amp in +-[0.1,10], centre anywhere on a 6..24 px grid, sx, sy in [0.8,6] "
        "differing by >= 5 %, theta in (-180,180]), an independent vary flag per parameter (>= 1 free), pixel set = full grid "
        "or a random mask (>= nfree+2 pixels) or exactly nfree, nfree+1, nfree+2 pixels near the components, weighting in {none, scalar errs, vector errs, B matrix of a short Gaussian "
        "correlation, C passed explicitly}. Oracles: five-point central differences of the model function in each parameter's "
        "own unit; sqrt(diag(inverse Fisher matrix)) built from those numerical derivatives and the harness's own C^-1. "
        "Non-trivial = (>= 2 components or theta free) and sx != sy; distinct = distinct case.")
ASSUMPTIONS = [
    "Fisher matrices with condition number > 1e10 are skipped and counted (stderr is then dominated by rounding)",
    "derivative rows are compared with tolerance 1e-6 relative to the largest entry of the row",
]

PNAMES = ["amp", "xo", "yo", "sx", "sy", "theta"]
f = st.floats


def component(size):
    return st.fixed_dictionaries({
        "amp": st.tuples(f(0.1, 10), st.sampled_from([1.0, -1.0])).map(lambda t: t[0] * t[1]),
        "xo": f(0, 1), "yo": f(0, 1),   # centre as a fraction of the grid extent (always on the grid)
        "sx": f(0.8, 6), "ratio": st.one_of(f(0.3, 0.95), f(1.05, 3.0)),
        "theta": st.one_of(f(-180, 180, exclude_min=True), st.sampled_from([0.0, 90.0, 180.0, 45.0, -90.0])),
        "vary": st.lists(st.booleans(), min_size=6, max_size=6),
    })


case_strategy = st.integers(6, 24).flatmap(lambda size: st.fixed_dictionaries({
    "size": st.tuples(st.just(size), st.integers(6, 24)),
    "comps": st.lists(component(size), min_size=1, max_size=4),
    "mask_seed": st.one_of(st.none(), st.integers(0, 2 ** 31 - 1)),
    "mask_keep": f(0.3, 0.95),
    # None: the random mask above; k: keep exactly nfree + k pixels (the just-determined and nearly just-determined grids),
    # drawn from the pixels nearest to the component centres so that the problem stays well conditioned
    "mask_exact": st.sampled_from([None, None, None, None, 0, 0, 1, 2]),
    "weight": st.sampled_from(["none", "scalar", "vector", "B", "C", "vectorB"]),
    # order in which the entries are put into the lmfit.Parameters container (the documented order of rows and errors is by
    # component and parameter, whatever the storage order)
    "order": st.sampled_from(["canonical", "canonical", "canonical", "reversed", "by-kind", "shuffled"]),
    "errs": f(0.01, 10),
    "corr": st.tuples(f(0.2, 0.7), f(0.2, 0.7), f(-90, 90)),
}))


def make_params(comps, size, order="canonical"):
    entries = []
    for i, c in enumerate(comps):
        pre = "c%d_" % i
        sy = c["sx"] * c["ratio"] if c["sx"] * c["ratio"] >= 0.5 else c["sx"] / c["ratio"]
        vals = {"amp": c["amp"], "xo": c["xo"] * (size[0] - 1), "yo": c["yo"] * (size[1] - 1), "sx": c["sx"], "sy": sy, "theta": c["theta"]}
        for k, name in enumerate(PNAMES):
            entries.append((i, k, pre + name, vals[name], bool(c["vary"][k])))
        entries.append((i, len(PNAMES), pre + "flags", 0, False))
    if order == "reversed":
        entries.sort(key=lambda e: (-e[0], e[1]))
    elif order == "by-kind":
        entries.sort(key=lambda e: (e[1], e[0]))
    elif order == "shuffled":
        rng = np.random.default_rng(len(entries) * 7919 + int(abs(comps[0]["amp"]) * 1000))
        entries = [entries[j] for j in rng.permutation(len(entries))]
    p = lmfit.Parameters()
    if order == "by-kind":
        p.add("components", value=len(comps), vary=False)
    for _, _, name, val, vary in entries:
        p.add(name, value=val, vary=vary)
    if order != "by-kind":
        p.add("components", value=len(comps), vary=False)
    return p


def free_list(comps):
    out = []
    for i, c in enumerate(comps):
        for k, name in enumerate(PNAMES):
            if c["vary"][k]:
                out.append("c%d_%s" % (i, name))
    return out


def _five_point(params, name, x, y, v0, h):
    vals = {}
    for k in (-2, -1, 1, 2):
        params[name].value = v0 + k * h
        vals[k] = np.array(fitting.ntwodgaussian_lmfit(params)(x, y), dtype=float)
    params[name].value = v0
    return (vals[-2] - 8 * vals[-1] + 8 * vals[1] - vals[2]) / (12 * h)


def numeric_row(params, name, x, y):
    """five-point central difference of the model w.r.t. one parameter, in that parameter's own unit.  The step is
    halved until two successive estimates agree to 1e-8 of the row maximum (truncation grows with the distance of the
    pixels from the component centre); returns (row, converged)"""
    pre = name.split("_")[0] + "_"
    v0 = params[name].value
    sx, sy = params[pre + "sx"].value, params[pre + "sy"].value
    kind = name.split("_")[1]
    if kind == "amp":
        h = 1e-3 * abs(v0)
    elif kind == "theta":
        h = 0.02
    else:
        h = 2e-3 * min(sx, sy)
    prev = _five_point(params, name, x, y, v0, h)
    for _ in range(6):
        h /= 2.0
        cur = _five_point(params, name, x, y, v0, h)
        scale = np.max(np.abs(cur))
        if np.max(np.abs(cur - prev)) <= 1e-8 * scale:
            return cur, True
        prev = cur
    return cur, False


def check_case(c):
    res = Res()
    comps = [dict(cc) for cc in c["comps"]]
    if not any(any(cc["vary"]) for cc in comps):
        comps[0]["vary"] = [True] + list(comps[0]["vary"][1:])
    params = make_params(comps, c["size"], c.get("order", "canonical"))
    free = free_list(comps)
    nfree = len(free)
    nx, ny = c["size"]
    gx, gy = np.indices((nx, ny))
    x, y = gx.ravel(), gy.ravel()
    if c["mask_seed"] is not None:
        rng = np.random.default_rng(c["mask_seed"])
        keep = rng.random(x.size) < c["mask_keep"]
        if keep.sum() < nfree + 2:
            keep[:] = True
        if c.get("mask_exact") is not None:
            want = nfree + c["mask_exact"]
            dist = np.full(x.size, np.inf)
            for i in range(len(comps)):
                cx, cy = params["c%d_xo" % i].value, params["c%d_yo" % i].value
                s_ = max(params["c%d_sx" % i].value, params["c%d_sy" % i].value)
                dist = np.minimum(dist, np.hypot(x - cx, y - cy) / s_)
            cand = np.argsort(dist, kind="stable")[: 2 * want + 4]
            pick = np.sort(rng.permutation(cand)[:want])
            keep = np.zeros(x.size, dtype=bool)
            keep[pick] = True
            res.label("npix=nfree+%d" % c["mask_exact"])
        x, y = x[keep], y[keep]
        res.label("masked")
    npix = x.size

    # ---- (1) analytic derivatives vs numerical, documented order and shape
    J = np.array(fitting.jacobian(params, x, y), dtype=float)
    rows = [numeric_row(params, nm, x, y) for nm in free]
    Jn = np.array([r_[0] for r_ in rows])
    if not all(r_[1] for r_ in rows):
        # the numerical reference did not converge (rounding-dominated far tail): not judged
        res.ambiguous += 1
        res.label("numeric-reference-not-converged")
        return res
    if J.shape != (nfree, npix):
        res.bad("jacobian-shape", "jacobian shape %r, expected (%d free, %d pixels)" % (J.shape, nfree, npix))
        return res
    for k, nm in enumerate(free):
        scale = np.max(np.abs(Jn[k]))
        amp = abs(params[nm.split("_")[0] + "_amp"].value)
        tol = 1e-6 * scale + 1e-12 * amp
        err = float(np.max(np.abs(J[k] - Jn[k])))
        if scale > 0:
            res.stat("jac_rel_err", err / scale)
        if not err <= tol:
            ratio = float(np.max(np.abs(J[k])) / scale) if scale > 0 else float("nan")
            res.bad("derivative", "row %d (%s): analytic differs from 5-point difference by %.3g of the row maximum "
                    "(|analytic|/|numeric| = %.6g)" % (k, nm, err / scale if scale else float("inf"), ratio),
                    param=nm.split("_")[1])

    # ---- (2) lmfit_jacobian: transpose, / errs, . B
    w = c["weight"]
    errs = None
    B = C = None
    if w in ("scalar", "B", "C"):
        errs = c["errs"]
    elif w in ("vector", "vectorB"):
        rng = np.random.default_rng(12345 + npix)
        errs = c["errs"] * (0.5 + rng.random(npix))
    if w in ("B", "C", "vectorB"):
        sxc, syc, thc = c["corr"]
        t = math.radians(thc)
        dx = x[:, None] - x[None, :]
        dy = y[:, None] - y[None, :]
        u = dx * math.cos(t) + dy * math.sin(t)
        v = dx * math.sin(t) - dy * math.cos(t)
        Cm = np.exp(-0.5 * ((u / sxc) ** 2 + (v / syc) ** 2))
        L, Q = np.linalg.eigh(Cm)
        if L.min() <= 1e-8 * L.max():
            res.ambiguous += 1
            return res
        B = Q.dot(np.diag(1 / np.sqrt(L)))
        Cinv = B.dot(B.T)
        if w == "C":
            C = Cm
    else:
        Cinv = np.eye(npix)
    LJ = np.array(fitting.lmfit_jacobian(params, x, y, B=B, errs=errs), dtype=float)
    expect = Jn / (errs if errs is not None else 1.0)
    if B is not None:
        expect = expect.dot(B)
    expect = expect.T
    if LJ.shape != expect.shape:
        res.bad("lmfit-jacobian-shape", "lmfit_jacobian shape %r, expected %r" % (LJ.shape, expect.shape))
    else:
        sc = np.max(np.abs(expect), axis=0)
        e = np.max(np.abs(LJ - expect), axis=0)
        # same absolute floor as the derivative clause (1e-12 of the component's amplitude), carried through /errs and .B
        amps = np.array([abs(params[nm.split("_")[0] + "_amp"].value) for nm in free])
        gain = (1.0 / np.min(np.abs(errs)) if errs is not None else 1.0) * (float(np.max(np.sum(np.abs(B), axis=0))) if B is not None else 1.0)
        if not np.all(e <= 1e-6 * sc + 1e-12 * np.max(sc) + 1e-12 * amps * gain):
            k = int(np.argmax(e / np.maximum(sc, 1e-300)))
            res.bad("lmfit-jacobian", "column %d (%s) of lmfit_jacobian differs from transpose(J/errs).B by %.3g of its "
                    "maximum (weight=%s)" % (k, free[k], e[k] / sc[k] if sc[k] else float("inf"), w), weight=w)

    # ---- (3) per-parameter 1-sigma = sqrt of its own diagonal entry of the inverse Fisher matrix
    Jw = Jn / (errs if errs is not None else 1.0)
    F = Jw.dot(Cinv).dot(Jw.T)
    try:
        cond = np.linalg.cond(F)
    except np.linalg.LinAlgError:
        cond = np.inf
    dead = any(np.max(np.abs(Jn[k])) <= 1e-9 * abs(params[nm.split("_")[0] + "_amp"].value) for k, nm in enumerate(free))
    if not np.isfinite(cond) or cond > 1e10 or dead:
        res.ambiguous += 1
        res.label("ill-conditioned-skipped")
    else:
        sig = np.sqrt(np.diag(np.linalg.inv(F)))
        data = np.zeros((nx, ny))
        if c["mask_seed"] is not None:
            data[:] = np.nan
            data[x, y] = 0.0
        for nm in params:
            params[nm].stderr = None
        out = fitting.covar_errors(params, data, errs=errs, B=B, C=C)
        # relative tolerance scaled by conditioning of the inversion
        tol = 1e-6 + 1e-13 * cond
        for k, nm in enumerate(free):
            got = out[nm].stderr
            if got is None or not np.isfinite(got) or not abs(got - sig[k]) <= tol * sig[k]:
                i = int(nm[1:nm.index("_")])
                # which entry (if any) did it get instead?
                other = [free[j] for j in range(nfree) if got is not None and abs(got - sig[j]) <= 1e-6 * sig[j]]
                res.bad("stderr", "%s.stderr = %r, expected sqrt(diag(F^-1)) = %r%s (weight=%s, %d components)" % (
                    nm, got, float(sig[k]), (" - that is the value of %s" % other[0]) if other else "", w, len(comps)),
                    component=min(i, 1), weight=w if w in ("B", "C") else "plain")
                break
        for nm in params:
            if nm not in free and nm != "components" and not nm.endswith("flags") and out[nm].stderr not in (None, 0):
                # fixed parameters must not receive an error
                res.bad("stderr-fixed", "fixed parameter %s received stderr %r" % (nm, out[nm].stderr))
                break
    theta_free = any(nm.endswith("theta") for nm in free)
    res.nontrivial = bool(len(comps) >= 2 or theta_free)
    res.label("ncomp-%d" % len(comps), "weight-" + w, "order-" + c.get("order", "canonical"))
    if theta_free:
        res.label("theta-free")
    return res


# ------------------------------------------------------------------ exactly singular Fisher matrices
singular_strategy = st.fixed_dictionaries({
    "size": st.tuples(st.integers(6, 16), st.integers(6, 16)),
    "comp": component(0),
    "weight": st.sampled_from(["none", "scalar", "B"]),
    "errs": f(0.01, 10),
})


def check_singular(c):
    """Two identical components with the same free parameters: the rows of the Jacobian are pairwise equal, the Fisher matrix
    is exactly singular and no uncertainty exists.  Whatever covar_errors reports for them, it is not the square root of
    anything: a stderr must be missing (None / nan / inf) or non-negative - never a negative number that the conversion to
    sky errors would use as a pixel offset."""
    res = Res()
    comp = dict(c["comp"])
    if not any(comp["vary"]):
        comp["vary"] = [True] + list(comp["vary"][1:])
    comps = [comp, dict(comp)]
    params = make_params(comps, c["size"])
    free = free_list(comps)
    nx, ny = c["size"]
    gx, gy = np.indices((nx, ny))
    x, y = gx.ravel(), gy.ravel()
    errs = c["errs"] if c["weight"] != "none" else None
    B = np.eye(x.size) if c["weight"] == "B" else None
    out = fitting.covar_errors(params, np.zeros((nx, ny)), errs=errs, B=B)
    for nm in free:
        got = out[nm].stderr
        if got is not None and np.isfinite(got) and got < 0:
            res.bad("stderr-negative", "singular model (two identical components): %s.stderr = %r" % (nm, got), weight=c["weight"])
            break
    res.nontrivial = len(free) >= 4
    res.label("singular-model")
    return res


TESTS = {
    "derivs": {"strategy": lambda tier: case_strategy, "check": check_case,
               "n": {"quick": 2000, "thorough": 60000}},
    "singular": {"strategy": lambda tier: singular_strategy, "check": check_singular, "n": {"quick": 200, "thorough": 4000}},
}
