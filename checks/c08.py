"""C08 - region operations are set algebra on sky pixels, for every history (regions.Region, MIMAS.combine_regions)"""
import copy
import itertools
import math

import healpy as hp
import hypothesis
from hypothesis import HealthCheck, Phase, settings
from hypothesis import strategies as st
from hypothesis.stateful import RuleBasedStateMachine, initialize, invariant, precondition, rule, run_state_machine_as_test

from vlib import regionhist
from vlib.core import Res, run_check, workdir

PROP = "C08"
SHARDS = {"quick": 8, "thorough": 16}
RULE = ("Hypothesis RuleBasedStateMachine: region depth D in 2..8 (thorough ..10); rules add_circles (scalar and list form, "
        "insertion depth <D, =D, >D, None), add_poly (convex, 3..6 vertices), add_pixels+_renorm, union with an operand of depth "
        "D-2..D+2 (optionally already queried), without / intersect / symmetric_difference (same depth; a different depth "
        "must raise AssertionError), sky_within (scalar, vector, degrees, NaN entries) at pixel centres of members and "
        "non-members, get_demoted, get_area/repr, pickle save+load, deepcopy; circles/polygons centred anywhere incl. the poles "
        "and RA wrap, radii 0.3..25 pixel sizes (<= 60 deg). Model = Python set of level-D pixel ids built with healpy directly. "
        "After every step: get_demoted of a deep copy == model, all stored ids integral and in range, stored pixels do not "
        "overlap (nothing represented twice), get_area == |model| x pixel area, membership answers == model. "
        "'exhaustive3' enumerates ALL sequences of length <= 3 over a 12-op alphabet at D=3 (1884 histories). "
        "Non-trivial = a mutating op after a query, or a mixed-depth union, or a pickle round trip; distinct = distinct history.")
ASSUMPTIONS = [
    "primitive -> pixel list comes from healpy directly (C09 covers the geometry; C08 is about the algebra, normal form, caches)",
    "add_pixels is always followed by _renorm (the only in-repo usage, MIMAS.mask2mim)",
    "integral-valued floats are accepted as valid integer ids",
    "query points are pixel centres (never near a pixel edge)",
]

MAXD = {"quick": 8, "thorough": 10}
f = st.floats


def resol_deg(D):
    return math.degrees(hp.nside2resol(2 ** D))


centre_st = st.one_of(
    st.tuples(f(0, 360, exclude_max=True), f(-1, 1).map(lambda v: math.degrees(math.asin(v)))),
    st.tuples(f(0, 360, exclude_max=True), st.sampled_from([90.0, -90.0, 89.0, -88.5])),
    st.tuples(st.sampled_from([0.0, 359.99, 0.01, 180.0]), f(-80, 80)),
)

def _az(t):
    start, w = t
    tot = sum(w)
    az, a = [], start
    for wi in w:
        az.append(a % 360.0)
        a += 360.0 * wi / tot
    return az


circle_generic = st.fixed_dictionaries({"kind": st.just("circle"), "c": centre_st, "k": f(0.3, 25), "list_form": st.booleans()})
# vertices on a small circle, consecutive azimuth gaps between 38 and 171 deg: always a convex polygon around its centre
poly_generic = st.fixed_dictionaries({"kind": st.just("poly"), "c": centre_st, "k": f(1.5, 20),
                                      "az": st.tuples(f(0, 360, exclude_max=True),
                                                      st.lists(f(1.0, 1.7), min_size=3, max_size=6)).map(_az)})
pixels_generic = st.fixed_dictionaries({"kind": st.just("pixels"),
                                        "pix": st.lists(st.integers(0, 2 ** 40), min_size=1, max_size=12),
                                        "block": st.booleans()})
prim_generic = st.one_of(circle_generic, circle_generic, poly_generic, pixels_generic)


def concretise(g, D):
    """turn a generic primitive (sizes in pixel units) into a concrete JSON primitive for depth D; None if degenerate"""
    if g["kind"] == "circle":
        return {"kind": "circle", "ra": g["c"][0], "dec": g["c"][1], "r": min(60.0, g["k"] * resol_deg(D)),
                "list_form": g["list_form"]}
    if g["kind"] == "poly":
        az = sorted(g["az"])
        gaps = [(az[(i + 1) % len(az)] - az[i]) % 360 for i in range(len(az))]
        if min(gaps) < 25 or max(gaps) > 170:
            return None
        return {"kind": "poly", "centre": list(g["c"]), "radius": min(30.0, g["k"] * resol_deg(D)), "az": az}
    pix = list(g["pix"])
    if g["block"]:
        # four siblings, so that _renorm has something to merge
        base = (pix[0] // 4) * 4
        pix = pix + [base, base + 1, base + 2, base + 3]
    return {"kind": "pixels", "pix": pix}


def make_machine(rec_cb, maxD, raise_bucket=None, minD=2, exports=False, test="history"):
    """RuleBasedStateMachine whose every run is reported to rec_cb(history) in teardown.  With raise_bucket set the
    machine raises as soon as that bucket is hit (second, shrinking pass)."""

    class RegionMachine(RuleBasedStateMachine):
        def __init__(self):
            super().__init__()
            self.h = None

        @initialize(D=st.integers(minD, maxD), special=st.sampled_from(["none", "none", "none", "single", "wholesky", "empty"]))
        def init(self, D, special):
            self.h = regionhist.History(D, exports=exports)
            if exports and special == "single":
                self.step({"op": "add", "prim": {"kind": "pixels", "pix": [5]}, "depth": D})
            elif exports and special == "wholesky" and D <= 4:
                self.step({"op": "add", "prim": {"kind": "pixels", "pix": list(range(12 * 4))}, "depth": 1})

        def step(self, op):
            if self.h.violations and raise_bucket is None:
                return      # collect mode: one violation per history, stop judging afterwards
            self.h.apply(op)
            if raise_bucket is not None:
                for clause, detail, tags in self.h.violations:
                    b = test + "/" + clause + ("/" + str(tags["bucket"]) if tags.get("bucket") else "")
                    if b == raise_bucket:
                        rec_cb(self.h)
                        raise AssertionError(detail)

        @rule(g=prim_generic, dsel=st.sampled_from(["none", "same", "coarser", "coarser2", "finer"]))
        def add(self, g, dsel):
            D = self.h.D
            prim = concretise(g, D)
            if prim is None:
                return
            depth = {"none": None, "same": D, "coarser": max(1, D - 1), "coarser2": max(1, D - 2), "finer": D + 2}[dsel]
            if prim["kind"] == "pixels" and depth is not None and depth > D:
                depth = D
            self.step({"op": "add", "prim": prim, "depth": depth})

        @rule(g=prim_generic, dd=st.sampled_from([0, 0, -1, -2, 1, 2]), queried=st.booleans())
        def union(self, g, dd, queried):
            D = self.h.D
            od = max(1, D + dd)
            prim = concretise(g, od)
            if prim is None:
                return
            self.step({"op": "union", "prim": prim, "opdepth": od, "ins_depth": None, "queried": queried})

        @rule(g=prim_generic, which=st.sampled_from(["without", "intersect", "symdiff"]),
              dd=st.sampled_from([0, 0, 0, 0, 1, -1]), queried=st.booleans())
        def setop(self, g, which, dd, queried):
            D = self.h.D
            od = max(1, D + dd)
            prim = concretise(g, od)
            if prim is None:
                return
            self.step({"op": which, "prim": prim, "opdepth": od, "ins_depth": None, "queried": queried})

        @rule(picks=st.lists(st.integers(0, 2 ** 40), min_size=1, max_size=16),
              form=st.sampled_from(["scalar", "vector", "degin", "nan"]))
        def sky_within(self, picks, form):
            if form == "scalar":
                picks = picks[:4]
            self.step({"op": "sky_within", "picks": picks, "form": form})

        @rule(picks=st.lists(st.integers(0, 2 ** 40), min_size=1, max_size=4), how=st.sampled_from(["symdiff", "without-add"]),
              pre=st.sampled_from(["sky_within", "sky_within", "get_demoted", "none"]))
        def swap(self, picks, how, pre):
            """an edit that keeps the NUMBER of level-D pixels: k members out, k non-members in, with a membership query
            before and a query of exactly those pixels after (anything keyed on the size of the set goes stale here)"""
            D, model = self.h.D, self.h.model
            if not model or self.h.violations:
                return
            npix = 12 * 4 ** D
            members = sorted(model)
            out = sorted({members[v % len(members)] for v in picks})
            inn = []
            for v in out:
                q = (v + 1) % npix
                while q in model or q in inn:
                    q = (q + 1) % npix
                    if q == v:
                        return
                inn.append(q)
            if pre == "sky_within":
                self.step({"op": "sky_within", "picks": picks, "form": "degin", "pixels": out + inn})
            elif pre == "get_demoted":
                self.step({"op": "get_demoted"})
            if how == "symdiff":
                self.step({"op": "symdiff", "prim": {"kind": "pixels", "pix": out + inn}, "opdepth": D, "ins_depth": None,
                           "queried": False})
            else:
                self.step({"op": "without", "prim": {"kind": "pixels", "pix": out}, "opdepth": D, "ins_depth": None,
                           "queried": False})
                self.step({"op": "add", "prim": {"kind": "pixels", "pix": inn}, "depth": D})
            self.step({"op": "sky_within", "picks": picks, "form": "degin", "pixels": out + inn})

        @rule()
        def get_demoted(self):
            self.step({"op": "get_demoted"})

        @rule()
        def get_area(self):
            self.step({"op": "get_area"})

        @rule(how=st.sampled_from(["pickle", "pickle", "deepcopy"]))
        def reload(self, how):
            self.step({"op": how})

        @precondition(lambda self: exports)
        @rule(via=st.booleans())
        def export_fits(self, via):
            self.step({"op": "export_fits", "via_mimas": via})

        @precondition(lambda self: exports)
        @rule(via=st.booleans())
        def export_fits_after_query(self, via):
            self.step({"op": "get_demoted"})
            self.step({"op": "export_fits", "via_mimas": via})

        @precondition(lambda self: self.h.D >= 2)
        @rule(pix=st.lists(st.integers(0, 2 ** 40), min_size=1, max_size=3), dd=st.sampled_from([1, 1, 2]),
              query=st.sampled_from(["get_demoted", "sky_within", "none"]))
        def raw_union(self, pix, dd, query):
            """union(other, renorm=False) with non-overlapping pixels on a coarser level, straight after a query"""
            if query == "get_demoted":
                self.step({"op": "get_demoted"})
            elif query == "sky_within":
                self.step({"op": "sky_within", "picks": pix, "form": "degin"})
            self.step({"op": "union_norenorm", "pix": pix, "depth": self.h.D - dd})

        @precondition(lambda self: exports and self.h.D >= 2)
        @rule(pix=st.lists(st.integers(0, 2 ** 40), min_size=1, max_size=3), dd=st.sampled_from([1, 1, 2]), via=st.booleans(),
              query=st.sampled_from([True, True, False]))
        def export_fits_after_raw_union(self, pix, dd, via, query):
            """query (flattens the representation), then a union without renormalisation that puts pixels on a coarser level,
            then the MOC export"""
            if query:
                self.step({"op": "get_demoted"})
            self.step({"op": "union_norenorm", "pix": pix, "depth": self.h.D - dd})
            self.step({"op": "export_fits", "via_mimas": via})

        @precondition(lambda self: exports)
        @rule(via=st.booleans())
        def export_reg(self, via):
            self.step({"op": "export_reg", "via_mimas": via})

        @precondition(lambda self: exports)
        @rule()
        def export_mim(self):
            self.step({"op": "export_mim"})

        def teardown(self):
            if self.h is not None:
                self.h.close()
                if raise_bucket is None:
                    rec_cb(self.h)

    return RegionMachine


def history_result(h):
    res = Res()
    for clause, detail, tags in h.violations[:1]:
        res.bad(clause, detail, **{k: v for k, v in tags.items() if k in ("bucket",)})
    fl = h.flags
    res.nontrivial = bool(fl["mutation_after_query"] or fl["mixed_depth_union"] or fl["pickle"])
    for k in ("mutation_after_query", "mixed_depth_union", "pickle"):
        if fl[k]:
            res.label(k.replace("_", "-"))
    res.label("depth-%d" % h.D)
    res.stat("steps", len(h.ops))
    return res


def check_history(case):
    """replay entry point: case = {D, ops}"""
    h = regionhist.run_history(case)
    return history_result(h)


def machine_custom(rec, name, tier, seed, shard, nshards, n):
    def cb(h):
        rec.record(name, h.case(), history_result(h))
    M = make_machine(cb, MAXD[tier])
    run_state_machine_as_test(
        hypothesis.seed(seed)(M),
        settings=settings(max_examples=n, stateful_step_count=12, database=None, deadline=None,
                          phases=[Phase.generate], derandomize=False, report_multiple_bugs=False,
                          suppress_health_check=list(HealthCheck)))


def machine_shrink(name, bucket, n, seed, tier):
    holder = {}

    def cb(h):
        clause, detail, tags = h.violations[0]
        holder["case"] = {"test": name, "clause": clause, "detail": detail, "tags": {}, "case": copy.deepcopy(h.case())}
    M = make_machine(cb, MAXD[tier], raise_bucket=bucket)
    try:
        run_state_machine_as_test(
            hypothesis.seed(seed)(M),
            settings=settings(max_examples=n, stateful_step_count=12, database=None, deadline=None,
                              phases=[Phase.generate, Phase.shrink], derandomize=False, report_multiple_bugs=False,
                              suppress_health_check=list(HealthCheck)))
    except AssertionError:
        pass
    return holder.get("case")


# ------------------------------------------------- bounded-exhaustive at depth 3
def alphabet3():
    D = 3
    c1 = {"kind": "circle", "ra": 40.0, "dec": 10.0, "r": 12.0, "list_form": False}
    c2 = {"kind": "circle", "ra": 50.0, "dec": 15.0, "r": 9.0, "list_form": True}
    pole = {"kind": "circle", "ra": 0.0, "dec": 90.0, "r": 20.0, "list_form": False}
    blk = {"kind": "pixels", "pix": [100, 101, 102, 103, 7]}
    return [
        {"op": "add", "prim": c1, "depth": None},
        {"op": "add", "prim": blk, "depth": 3},
        {"op": "add", "prim": pole, "depth": 2},
        {"op": "union", "prim": c2, "opdepth": 5, "ins_depth": None, "queried": False},
        {"op": "union", "prim": c2, "opdepth": 2, "ins_depth": None, "queried": True},
        {"op": "without", "prim": c2, "opdepth": 3, "ins_depth": None, "queried": False},
        {"op": "intersect", "prim": pole, "opdepth": 3, "ins_depth": None, "queried": True},
        {"op": "symdiff", "prim": c1, "opdepth": 3, "ins_depth": None, "queried": False},
        {"op": "sky_within", "picks": [1, 5, 77, 300, 12345, 99], "form": "degin"},
        {"op": "pickle"},
        # a size-preserving edit (7 out, 8 in when the block is present) and a query of exactly those pixels
        {"op": "symdiff", "prim": {"kind": "pixels", "pix": [7, 8]}, "opdepth": 3, "ins_depth": None, "queried": False},
        {"op": "sky_within", "picks": [3, 4], "form": "vector", "pixels": [7, 8, 100, 104, 0]},
    ]


def exhaustive_custom(rec, name, tier, seed, shard, nshards, n):
    alpha = alphabet3()
    k = 0
    for length in (1, 2, 3):
        for seq in itertools.product(range(len(alpha)), repeat=length):
            k += 1
            if k % nshards != shard:
                continue
            case = {"D": 3, "ops": [copy.deepcopy(alpha[i]) for i in seq]}
            rec.record(name, case, run_check(check_history, case))
    rec.exhaustive = True


# ------------------------------------------- MIMAS.combine_regions / intersect_regions through files
def prim_for(D, gen=None):
    return (gen or st.one_of(circle_generic, poly_generic)).map(lambda g: concretise(g, D))


combine_strategy = st.integers(2, 7).flatmap(lambda D: st.fixed_dictionaries({
    "D": st.just(D),
    "add_region": st.lists(st.tuples(prim_for(D), st.sampled_from([0, 0, -1, 1, 2]), st.booleans()), max_size=2),
    "rem_region": st.lists(st.tuples(prim_for(D), st.booleans()), max_size=2),
    "inc_circ": st.lists(prim_for(D, circle_generic), max_size=2),
    "exc_circ": st.lists(prim_for(D, circle_generic), max_size=2),
    "inc_poly": st.lists(prim_for(D, poly_generic), max_size=1),
    "exc_poly": st.lists(prim_for(D, poly_generic), max_size=1),
    "intersect_with": st.lists(prim_for(D), max_size=2),
    "cli": st.sampled_from([False, False, True]),
}))


def check_combine(c):
    import os
    import shutil
    import tempfile
    from AegeanTools import MIMAS
    from vlib import regionlib as rl
    res = Res()
    D = c["D"]
    if c.get("cli"):
        # the command line takes plain decimal numbers (argparse reads '-1e-05' as an option): round the circle
        # parameters to 6 decimals up front so that container, model and argv all carry exactly the same values; polygons
        # (whose vertices are computed) are left to the library route
        def r6(p):
            return dict(p, ra=round(p["ra"], 6), dec=round(p["dec"], 6), r=round(max(p["r"], 1e-5), 6))
        c = dict(c, inc_circ=[r6(p) for p in c["inc_circ"]], exc_circ=[r6(p) for p in c["exc_circ"]], inc_poly=[], exc_poly=[])
    d = workdir("c08c_")
    try:
        cont = MIMAS.Dummy(maxdepth=D)
        model = set()
        try:
            for k, (prim, dd, q) in enumerate(c["add_region"]):
                od = max(1, D + dd)
                # the primitive was sized for depth D; build it at depth od
                reg, m = rl.make_operand(prim, od, None, queried=q)
                path = os.path.join(d, "add%d.mim" % k)
                reg.save(path)
                cont.add_region.append([path])
                model |= rl.to_level(m, od, D)
            for k, (prim, q) in enumerate(c["rem_region"]):
                reg, m = rl.make_operand(prim, D, None, queried=q)
                path = os.path.join(d, "rem%d.mim" % k)
                reg.save(path)
                cont.rem_region.append([path])
                model -= m
            for prim in c["inc_circ"]:
                cont.include_circles.append([prim["ra"], prim["dec"], prim["r"]])
                model |= rl.prim_pixels(prim, D)
            for prim in c["exc_circ"]:
                cont.exclude_circles.append([prim["ra"], prim["dec"], prim["r"]])
                model -= rl.prim_pixels(prim, D)
            for prim in c["inc_poly"]:
                verts = rl.convex_polygon(prim["centre"], prim["radius"], prim["az"])
                cont.include_polygons.append([v for rd in verts for v in rd])
                model |= rl.prim_pixels(prim, D)
            for prim in c["exc_poly"]:
                verts = rl.convex_polygon(prim["centre"], prim["radius"], prim["az"])
                cont.exclude_polygons.append([v for rd in verts for v in rd])
                model -= rl.prim_pixels(prim, D)
        except Exception as e:
            from vlib.core import repo_frame
            if repo_frame(e.__traceback__):
                raise
            res.ambiguous += 1          # healpy rejected a polygon on the model side
            return res
        if c.get("cli"):
            # the same container through the MIMAS command line
            from AegeanTools.CLI import MIMAS as mimas_cli
            from AegeanTools.regions import Region
            out = os.path.join(d, "cli_out.mim")
            argv = ["-o", out, "-depth", str(D)]
            for r_ in cont.add_region:
                argv += ["+r", r_[0]]
            for r_ in cont.rem_region:
                argv += ["-r", r_[0]]
            for cc in cont.include_circles:
                argv += ["+c"] + ["%.10f" % float(v) for v in cc]
            for cc in cont.exclude_circles:
                argv += ["-c"] + ["%.10f" % float(v) for v in cc]
            for pp in cont.include_polygons:
                argv += ["+p"] + [repr(float(v)) for v in pp]
            for pp in cont.exclude_polygons:
                argv += ["-p"] + [repr(float(v)) for v in pp]
            rc = mimas_cli.main(argv)
            if rc not in (0, None) or not os.path.exists(out):
                res.bad("cli-combine-run", "MIMAS %s returned %r, output exists=%s" % (" ".join(argv[:8]), rc, os.path.exists(out)))
                return res
            region = Region.load(out)
            res.label("combine-via-cli")
        else:
            region = MIMAS.combine_regions(cont)
        for clause, detail in rl.inspect(region, model, D, tag="combine_regions: "):
            res.bad("combine-" + clause, detail)
        if c["intersect_with"] and not res.violations:
            files = [os.path.join(d, "base.mim")]
            MIMAS.save_region(region, files[0])
            for k, prim in enumerate(c["intersect_with"]):
                try:
                    reg, m = rl.make_operand(prim, D, None, queried=bool(k % 2))
                except Exception as e:
                    from vlib.core import repo_frame
                    if repo_frame(e.__traceback__):
                        raise
                    res.ambiguous += 1
                    return res
                path = os.path.join(d, "int%d.mim" % k)
                reg.save(path)
                files.append(path)
                model &= m
            out = MIMAS.intersect_regions(files)
            for clause, detail in rl.inspect(out, model, D, tag="intersect_regions: "):
                res.bad("intersect-files-" + clause, detail)
        mixed = any(dd != 0 for _, dd, _ in c["add_region"])
        res.nontrivial = bool(mixed or (c["rem_region"] and c["add_region"]) or c["intersect_with"])
        if mixed:
            res.label("mixed-depth-files")
    finally:
        shutil.rmtree(d, ignore_errors=True)
    return res


TESTS = {
    "combine": {"strategy": lambda tier: combine_strategy, "check": check_combine,
                "n": {"quick": 300, "thorough": 6000}},
    "history": {"custom": machine_custom, "check": check_history, "shrink": machine_shrink,
                "n": {"quick": 1600, "thorough": 30000}},
    "exhaustive3": {"custom": exhaustive_custom, "check": check_history, "n": {"quick": 0, "thorough": 0}},
}
