"""C15 - compress then expand restores shape, WCS and grid-node values (fits_tools, SR6, aux loading)"""
import os
import shutil
import tempfile

import numpy as np
from astropy.io import fits
from hypothesis import strategies as st

from AegeanTools import fits_tools
from AegeanTools.CLI import SR6
from vlib import refs
from vlib.core import Res, run_check, workdir

PROP = "C15"
SHARDS = {"quick": 8, "thorough": 16}
RULE = ("Hypothesis: rows, cols in 2..200 (weighted to size mod factor in {0,1,factor-1} and to factor > size), factor 1..64, "
        "CDELT or CD header, arbitrary float CRPIX, float32 data; image kind = random values, bilinear interpolation of "
        "random node values on the decimation grid (linear between nodes, like BANE maps) or a global plane; input as file, "
        "in-memory HDUList or through the SR6 command line; plus the load_image_band/_load_aux_image shape clause. "
        "'classes' enumerates every (rows, cols) in 2..3f+1 for every f in 1..8 (all residue classes; exhaustive for that "
        "sub-domain). Non-trivial = rows mod f != cols mod f, or f > min(rows, cols); distinct = distinct (rows, cols, f, kind, route).")
ASSUMPTIONS = [
    "2-D float32 images with diagonal CDELT/CD (the code documents that CD1_2/CD2_1 are not handled)",
    "exactness on complete cells uses tolerance 2e-6 relative to the data range (float32 output)",
]


def bilinear_nodes(rows, cols, f, rng):
    """image that is linear between decimation nodes (0, f, 2f, ...) in both directions"""
    nr = (rows - 1) // f + 2
    nc = (cols - 1) // f + 2
    nodes = rng.integers(-64, 64, size=(nr, nc)).astype(np.float64) / 4.0
    r = np.arange(rows)[:, None] / float(f)
    c = np.arange(cols)[None, :] / float(f)
    r0 = np.floor(r).astype(int)
    c0 = np.floor(c).astype(int)
    tr, tc = r - r0, c - c0
    img = (nodes[r0, c0] * (1 - tr) * (1 - tc) + nodes[r0 + 1, c0] * tr * (1 - tc)
           + nodes[r0, c0 + 1] * (1 - tr) * tc + nodes[r0 + 1, c0 + 1] * tr * tc)
    return img.astype(np.float32)


def make_image(c):
    rng = np.random.default_rng(c["seed"])
    rows, cols, f = c["rows"], c["cols"], c["factor"]
    if c.get("dtype", "f4").startswith("i"):
        # integer pixel types: random counts, or a plane with integer coefficients (linear between nodes AND integer valued)
        if c["kind"] == "random":
            return rng.integers(-3000, 3000, size=(rows, cols)).astype(c["dtype"])
        a, b, k = (int(v) for v in rng.integers(-8, 8, size=3))
        return (a * np.arange(rows)[:, None] + b * np.arange(cols)[None, :] + k).astype(c["dtype"])
    if c["kind"] == "random":
        img = rng.normal(size=(rows, cols)).astype(np.float32)
    elif c["kind"] == "nodes":
        img = bilinear_nodes(rows, cols, f, rng)
    else:
        a, b, k = rng.integers(-8, 8, size=3) / 8.0
        img = (a * np.arange(rows)[:, None] + b * np.arange(cols)[None, :] + k).astype(np.float32)
    return img.astype(c.get("dtype", "f4"))


def make_hdu(c, img):
    hdu = fits.PrimaryHDU(img.copy())
    w = refs.ZWCS("SIN", c["crval"][0], c["crval"][1], c["crpix"][0], c["crpix"][1],
                  -c["scale"] / 3600.0, c["scale"] / 3600.0, c.get("cdrot", 0.0))
    for k, v in w.header_cards(cd=c["cd"]).items():
        hdu.header[k] = v
    return hdu


KEYS = ("CRPIX1", "CRPIX2", "CDELT1", "CDELT2", "CD1_1", "CD2_2", "CD1_2", "CD2_1", "CRVAL1", "CRVAL2", "CTYPE1", "CTYPE2")


def check_case(c):
    res = Res()
    rows, cols, f = c["rows"], c["cols"], c["factor"]
    img = make_image(c)
    hdu = make_hdu(c, img)
    h0 = hdu.header.copy()
    d = workdir("c15_")
    try:
        src = os.path.join(d, "in.fits")
        cmp_path = os.path.join(d, "cmp.fits")
        exp_path = os.path.join(d, "exp.fits")
        hdu.writeto(src)
        route = c["route"]
        if route == "file":
            chl = fits_tools.compress(src, f, cmp_path)
            if chl is None:
                res.bad("compress-failed", "compress returned None for %dx%d factor %d" % (rows, cols, f))
                return res
            cdata = np.array(chl[0].data)
            ehl = fits_tools.expand(cmp_path, exp_path)
            out = np.array(fits.getdata(exp_path))
            h1 = fits.getheader(exp_path)
        elif route == "hdu":
            hl = fits.HDUList([make_hdu(c, img)])
            chl = fits_tools.compress(hl, f)
            if chl is None:
                res.bad("compress-failed", "compress returned None for %dx%d factor %d" % (rows, cols, f))
                return res
            cdata = np.array(chl[0].data)
            chl.writeto(cmp_path)
            ehl = fits_tools.expand(chl)
            if ehl is None:
                res.bad("expand-failed", "expand returned None")
                return res
            out = np.array(ehl[0].data)
            h1 = ehl[0].header
        else:  # SR6 command line
            rc = SR6.main([src, "-f", str(f), "-o", cmp_path])
            if rc not in (None, 0) or not os.path.exists(cmp_path):
                res.bad("sr6-compress", "SR6 -f %d returned %r, output exists=%s" % (f, rc, os.path.exists(cmp_path)))
                return res
            cdata = np.array(fits.getdata(cmp_path))
            rc = SR6.main([cmp_path, "-x", "-o", exp_path])
            if rc not in (None, 0) or not os.path.exists(exp_path):
                res.bad("sr6-expand", "SR6 -x returned %r, output exists=%s" % (rc, os.path.exists(exp_path)))
                return res
            out = np.array(fits.getdata(exp_path))
            h1 = fits.getheader(exp_path)

        tags = dict(rmod=rows % f, cmod=cols % f, big=bool(f > min(rows, cols)))
        if out.shape != (rows, cols):
            res.bad("shape", "%dx%d factor %d: expanded shape %r" % (rows, cols, f, out.shape), **tags)
            return res
        for k in KEYS:
            if (k in h0) != (k in h1):
                res.bad("wcs-keys", "%s present before=%s after=%s" % (k, k in h0, k in h1), **tags)
            elif k in h0:
                a, b = h0[k], h1[k]
                if isinstance(a, str):
                    ok = a == b
                elif k.startswith("CRPIX"):
                    # a reference pixel restored to 1e-9 pixel (float rounding of (p+f-1)/f then (p'-1)*f+1)
                    ok = abs(a - b) <= 1e-9 + 1e-12 * abs(a)
                else:
                    ok = abs(a - b) <= 1e-12 * abs(a)
                if not ok:
                    res.bad("wcs-keys", "%dx%d factor %d: %s was %r is %r" % (rows, cols, f, k, a, b), key=k, **tags)
        left = [k for k in h1 if k.startswith("BN_")]
        if left:
            res.bad("bn-keys-left", "compression keywords left after expand: %r" % left, **tags)
        if not np.array_equal(out[::f, ::f], img[::f, ::f]):
            bad = np.argwhere(out[::f, ::f] != img[::f, ::f])[0]
            res.bad("node-values", "%dx%d factor %d: node (%d,%d) is %r, was %r" % (
                rows, cols, f, bad[0] * f, bad[1] * f, out[bad[0] * f, bad[1] * f], img[bad[0] * f, bad[1] * f]), **tags)
        lo, hi = float(np.min(cdata)), float(np.max(cdata))
        slack = 1e-6 * max(abs(lo), abs(hi), 1e-30)
        if not (np.all(np.isfinite(out)) and out.min() >= lo - slack and out.max() <= hi + slack):
            res.bad("range", "%dx%d factor %d: output range [%r, %r] outside compressed samples' [%r, %r]" % (
                rows, cols, f, float(np.nanmin(out)), float(np.nanmax(out)), lo, hi), **tags)
        if c["kind"] in ("nodes", "plane"):
            rlim = ((rows - 1) // f) * f
            clim = ((cols - 1) // f) * f
            a = out[:rlim + 1, :clim + 1].astype(np.float64)
            b = img[:rlim + 1, :clim + 1].astype(np.float64)
            tol = 2e-6 * max(float(np.max(np.abs(img))), 1.0)
            if not np.all(np.abs(a - b) <= tol):
                k = np.unravel_index(np.argmax(np.abs(a - b)), a.shape)
                res.bad("linear-cells", "%dx%d factor %d: pixel %r of a complete cell is %r, was %r" % (
                    rows, cols, f, tuple(int(x) for x in k), float(a[k]), float(b[k])), **tags)
        # Aegean accepts the compressed file and gets the image's shape
        band, _ = fits_tools.load_image_band(cmp_path)
        if np.asarray(band).shape != (rows, cols):
            res.bad("aux-shape", "load_image_band(compressed) has shape %r for a %dx%d image" % (
                np.asarray(band).shape, rows, cols), **tags)
        if c.get("aux"):
            from AegeanTools.source_finder import SourceFinder
            aux = SourceFinder()._load_aux_image(img, cmp_path)
            if np.asarray(aux).shape != (rows, cols):
                res.bad("aux-shape", "_load_aux_image gave %r" % (np.asarray(aux).shape,), **tags)
        res.nontrivial = bool(rows % f != cols % f or f > min(rows, cols))
        res.key = {"rows": rows, "cols": cols, "f": f, "kind": c["kind"], "route": route, "cd": c["cd"]}
        if f > min(rows, cols):
            res.label("factor>size")
        res.label("route-" + route, "kind-" + c["kind"])
    finally:
        shutil.rmtree(d, ignore_errors=True)
    return res


def sizes(f):
    near = st.integers(0, 6).flatmap(lambda q: st.sampled_from([q * f, q * f + 1, q * f + f - 1, q * f + 2]))
    return st.one_of(st.integers(2, 200), near).map(lambda v: min(200, max(2, v)))


case_strategy = st.integers(1, 64).flatmap(lambda f: st.fixed_dictionaries({
    "factor": st.just(f), "rows": sizes(f), "cols": sizes(f),
    "kind": st.sampled_from(["random", "nodes", "nodes", "plane"]),
    "route": st.sampled_from(["file", "file", "hdu", "sr6"]),
    "cd": st.booleans(), "aux": st.booleans(),
    # pixel type of the image handed to compress (the maps are float32 whatever comes in), and a CD matrix with off-diagonal
    # terms (deg of rotation; the code documents that compress/expand leave CD1_2/CD2_1 alone - they must come back as given)
    "dtype": st.sampled_from(["f4", "f4", "f4", "f8", "i2", "i4"]),
    "cdrot": st.sampled_from([0.0, 0.0, 0.0, 12.0, -40.0]),
    "crval": st.tuples(st.floats(0, 359.99), st.floats(-80, 80)),
    "crpix": st.tuples(st.floats(-1000, 1000), st.floats(-1000, 1000)),
    "scale": st.floats(1, 600), "seed": st.integers(0, 2 ** 31 - 1)}))


def classes_custom(rec, name, tier, seed, shard, nshards, n_unused):
    k = 0
    for f in range(1, 9):
        for rows in range(2, 3 * f + 2):
            for cols in range(2, 3 * f + 2):
                k += 1
                if k % nshards != shard:
                    continue
                case = {"factor": f, "rows": rows, "cols": cols, "kind": "nodes" if (rows + cols) % 2 else "random",
                        "route": "file", "cd": bool((rows * cols) % 2), "aux": False,
                        "crval": [10.0, -30.0], "crpix": [rows / 3.0 + 0.37, cols * 1.7 - 4.1], "scale": 20.0,
                        "seed": seed % 100000 + k}
                rec.record(name, case, run_check(check_case, case))
    rec.exhaustive = True


# ------------------------------------------- the compressed files that BANE itself writes (the files Aegean is given)
bane_strategy = st.fixed_dictionaries({
    "rows": st.integers(12, 90), "cols": st.integers(12, 90), "grid": st.integers(2, 12), "boxmul": st.floats(1, 4),
    "cores": st.sampled_from([1, 1, 2]), "cd": st.booleans(),
    "crval": st.tuples(st.floats(0, 359.99), st.floats(-80, 80)),
    "crpix": st.tuples(st.floats(-300, 300), st.floats(-300, 300)),
    "scale": st.floats(1, 600), "seed": st.integers(0, 2 ** 31 - 1)})


def check_bane(c):
    """BANE --compress writes *_bkg.fits and *_rms.fits decimated to its grid; each must expand to the image's shape and WCS
    keywords, and be accepted as an auxiliary image of the image's shape"""
    from AegeanTools import BANE
    from AegeanTools.source_finder import SourceFinder
    res = Res()
    rows, cols, g = c["rows"], c["cols"], c["grid"]
    rng = np.random.default_rng(c["seed"])
    img = rng.normal(size=(rows, cols)).astype(np.float32)
    hdu = make_hdu(dict(c), img)
    h0 = hdu.header.copy()
    box = int(max(4, g, round(g * c["boxmul"])))
    d = workdir("c15b_")
    try:
        src = os.path.join(d, "im.fits")
        hdu.writeto(src)
        BANE.filter_image(src, out_base=os.path.join(d, "out"), step_size=(g, g), box_size=(box, box), cores=c["cores"],
                          nslice=None if c["cores"] == 1 else c["cores"], compressed=True)
        for name in ("bkg", "rms"):
            fn = os.path.join(d, "out_%s.fits" % name)
            tags = dict(map=name, cd=c["cd"])
            if not os.path.exists(fn):
                res.bad("bane-file-missing", "BANE wrote no %s" % os.path.basename(fn), **tags)
                continue
            if not fits_tools.is_compressed(fits.getheader(fn)):
                res.bad("bane-file-not-compressed", "%s carries no compression keywords" % os.path.basename(fn), **tags)
                continue
            ehl = fits_tools.expand(fn)
            h1 = ehl[0].header
            if np.asarray(ehl[0].data).shape != (rows, cols):
                res.bad("bane-file-shape", "%dx%d grid %d: %s expands to %r" % (rows, cols, g, os.path.basename(fn),
                                                                              np.asarray(ehl[0].data).shape), **tags)
                continue
            for k in KEYS:
                if k not in h0:
                    continue
                a, b = h0[k], h1.get(k)
                if isinstance(a, str):
                    ok = a == b
                elif b is None:
                    ok = False
                elif k.startswith("CRPIX"):
                    ok = abs(a - b) <= 1e-9 + 1e-12 * abs(a)
                else:
                    ok = abs(a - b) <= 1e-12 * abs(a)
                if not ok:
                    res.bad("bane-file-wcs", "%dx%d grid %d: %s expands to %s = %r, the image has %r" % (
                        rows, cols, g, os.path.basename(fn), k, b, a), key=k, **tags)
                    break
            aux = SourceFinder()._load_aux_image(img, fn)
            if aux is None or np.asarray(aux).shape != (rows, cols):
                res.bad("bane-file-aux-shape", "_load_aux_image(%s) gave %r for a %dx%d image" % (
                    os.path.basename(fn), None if aux is None else np.asarray(aux).shape, rows, cols), **tags)
        res.nontrivial = bool(rows % g or cols % g)
        res.label("bane-cd" if c["cd"] else "bane-cdelt")
    finally:
        shutil.rmtree(d, ignore_errors=True)
    return res


TESTS = {
    "roundtrip": {"strategy": lambda tier: case_strategy, "check": check_case,
                  "n": {"quick": 1200, "thorough": 40000}},
    "bane": {"strategy": lambda tier: bane_strategy, "check": check_bane, "n": {"quick": 96, "thorough": 2000}},
    "classes": {"custom": classes_custom, "check": check_case, "n": {"quick": 0, "thorough": 0}},
}
