"""C03 - every output catalogue is internally consistent and reproducible (blind + priorized fitting)"""
import json
import math
import os
import re
import shutil
import subprocess
import sys
import tempfile

import numpy as np
from hypothesis import strategies as st

from AegeanTools import flags
from AegeanTools.angle_tools import dec2dec, ra2dec
from AegeanTools.catalogs import save_catalog, load_table, table_to_source_list
from AegeanTools.models import ComponentSource, IslandSource
from AegeanTools.source_finder import SourceFinder
from vlib import fields, refs, skyimg
from vlib.core import REPO, ROOT, HarnessError, Res, enc, workdir

PROP = "C03"
SHARDS = {"quick": 16, "thorough": 16}
TIME_LIMIT = {"quick": 2400, "thorough": 8 * 3600}
CASE_TIMEOUT_S = 600   # a case that takes longer is inconclusive (counted as ambiguous), never a violation
RULE = ("Hypothesis: messy fields (vlib/fields.py: 96..256 px, several projections incl. a high-dec ARC family, 0..60 "
        "sky-defined sources of both signs on a jittered grid or at random, blends of 2-4 components, single-pixel spikes and "
        "2-5 pixel specks that trigger the small-island flags, NaN rectangles cutting through sources, white / "
        "model-covariance / no noise). Modes: blind {island rows on/off, max_summits None/1/2, docov}; priorized stage 1-3 on "
        "the blind catalogue or on a synthetic catalogue of 21..80 groups (crosses the batch size of 20), regroup on/off. "
        "History: the same call repeated in the same process and in a fresh child process. Oracles: validity predicates over "
        "every row (uniqueness, numbering, ranges, flag bits, error columns, sexagesimal strings, int_flux relation), island "
        "rows against the harness flood fill and the component rows, row-wise equality of repeated runs apart from uuids. "
        "Non-trivial = >= 2 rows and (a multi-component island, or a flagged row, or > 20 priorized groups, or an island "
        "row); distinct = distinct case.")
ASSUMPTIONS = [
    "island rows are compared with the flood fill using the strict test snr > flood that the island summary documents "
    "(differs from the island definition snr >= flood only at exact ties, which continuous data do not produce)",
    "repeated runs are compared bit for bit (single-threaded deterministic numpy/BLAS: OMP/OPENBLAS/MKL threads = 1)",
]
f = st.floats
CHILD = os.path.join(ROOT, "vlib", "c03_child.py")

case_strategy = st.fixed_dictionaries({
    "rep": skyimg.rep_strategy,      # how the image is stored (CD matrix, degenerate axes, BSCALE/BZERO)
    "field": fields.field_strategy,
    "mode": st.sampled_from(["blind", "blind", "blind", "prior-blind", "prior-synth", "prior-synth"]),
    "islandflux": st.booleans(),
    "max_summits": st.sampled_from([None, None, 1, 2]),
    "docov": st.sampled_from([False, False, True]),
    "stage": st.sampled_from([1, 2, 3]),
    "regroup": st.booleans(),
    "ngroups": st.integers(21, 80),
    "rerun": st.sampled_from(["none", "inproc", "inproc", "fresh"]),
    "table": st.sampled_from([None, None, "csv", "fits", "vot"]),
    "cli": st.sampled_from([False, False, True]),
    # distance (deg) of the image from the reference point of its projection (0 = reference pixel on the image)
    "far": st.sampled_from([0, 0, 0, 5.0, 12.0, 25.0]),
    # the image stored as integers (BITPIX 16 / 32, no scaling cards): the field is rounded to whole numbers and has no
    # blank pixels (integer images cannot hold NaN)
    "intpix": st.sampled_from([None, None, None, None, None, "i2", "i4"]),
    "cores": st.sampled_from([1, 1, 1, 2, 3]),      # worker processes of the finder (the catalogue must not depend on it)
})


def synth_field(c):
    """prior-synth mode: a field with one real source per catalogue group (21..80 groups on a 256 px image)"""
    fc = dict(c["field"])
    fc.update(nsrc=c["ngroups"], layout="grid", size_max=1.0, rows=256, cols=256, blend_rate=min(fc["blend_rate"], 0.2),
              snr_range=(20, 100), scale=min(fc["scale"], 16.0), nan_rects=min(fc["nan_rects"], 1))
    return fc


def synth_catalogue(F, c):
    """the input catalogue of prior-synth mode: the field's own sources, grouped into islands by proximity"""
    out = []
    island = 0
    last = None
    for k, t in enumerate(F["truth"]):
        if last is None or float(refs.vsep(last["ra"], last["dec"], t["ra"], t["dec"])) > 2.5 * F["beam"][0]:
            island += 1
            num = 0
        else:
            num += 1
        last = t
        s = ComponentSource()
        s.ra, s.dec = t["ra"], t["dec"]
        s.peak_flux = t["peak"]
        s.a, s.b, s.pa = t["a"] * 3600, t["b"] * 3600, t["pa"]
        s.island, s.source = island, num
        s.err_ra = s.err_dec = 1e-5
        s.err_a = s.err_b = 0.1
        s.err_pa = 1.0
        s.psf_a, s.psf_b, s.psf_pa = F["beam"][0] * 3600, F["beam"][1] * 3600, F["beam"][2]
        s.uuid = "syn-%03d-%d" % (island, num)
        out.append(s)
    # a few catalogue entries that cannot be measured (off the image), spread over the island numbers so that some fall
    # into the first batches of 20 groups: a batch then returns fewer islands than it was given
    rng = np.random.default_rng(c["field"]["seed"] + 23)
    rows, cols = F["shape"]
    nextra = int(c.get("unmeasurable") or rng.integers(0, 4))
    for k in range(nextra):
        s = ComponentSource()
        ra, dec = (float(v) for v in F["w"].pix2sky(-30.0 - 10 * k, rows / 2.0))
        s.ra, s.dec = ra, dec
        s.peak_flux = 5.0
        s.a, s.b, s.pa = F["beam"][0] * 3600, F["beam"][1] * 3600, 0.0
        # island numbers are real numbers between existing ones would not be valid: renumber below
        s.island, s.source = -1, 0
        s.err_ra = s.err_dec = 1e-5
        s.err_a = s.err_b = 0.1
        s.err_pa = 1.0
        s.psf_a, s.psf_b, s.psf_pa = F["beam"][0] * 3600, F["beam"][1] * 3600, F["beam"][2]
        s.uuid = "syn-off-%d" % k
        out.insert(int(rng.integers(0, max(1, min(len(out), 10 if c.get("unmeasurable") else 25)))), s)
    # renumber the islands in list order (keeping the members of an island together)
    remap, nxt = {}, 0
    for s in out:
        key = (s.island, s.uuid) if s.island == -1 else (s.island, None)
        if key not in remap:
            nxt += 1
            remap[key] = nxt
        s.island = remap[key]
    return out


def run_case(c, path, F):
    """-> list of sources (components and island rows) for the case's mode"""
    if c["field"]["noise"] == "white":
        docov = False
    elif c["field"]["noise"] == "correlated":
        docov = True
    else:
        docov = c["docov"]
    blind = SourceFinder().find_sources_in_image(path, rms=1.0, bkg=0.0, innerclip=5, outerclip=4, docov=docov, cores=c.get("cores", 1),
                                                 doislandflux=c["islandflux"], max_summits=c["max_summits"], **skyimg.cube_kw(c.get("rep")))
    if c["mode"] == "blind":
        return blind, docov
    if c["mode"] == "prior-blind":
        cat = [s for s in blind if isinstance(s, ComponentSource) and np.isfinite(s.peak_flux) and np.isfinite(s.a)]
        if not cat:
            return [], docov
    else:
        cat = synth_catalogue(F, c)
    out = SourceFinder().priorized_fit_islands(path, catalogue=cat, rms=1.0, bkg=0.0, stage=c["stage"], doregroup=c["regroup"],
                                               docov=docov, cores=c.get("cores", 1), **skyimg.cube_kw(c.get("rep")))
    return out, docov


COLS_COMP = ["island", "source", "background", "local_rms", "ra_str", "dec_str", "ra", "err_ra", "dec", "err_dec", "peak_flux",
             "err_peak_flux", "int_flux", "err_int_flux", "a", "err_a", "b", "err_b", "pa", "err_pa", "flags", "residual_mean",
             "residual_std", "psf_a", "psf_b", "psf_pa"]
COLS_ISLE = ["island", "components", "background", "local_rms", "ra_str", "dec_str", "ra", "dec", "peak_flux", "int_flux",
             "err_int_flux", "eta", "x_width", "y_width", "max_angular_size", "pa", "pixels", "area", "beam_area", "flags"]


def rows_as_json(sources):
    out = []
    for s in sources:
        cols = COLS_COMP if isinstance(s, ComponentSource) else COLS_ISLE
        r = [type(s).__name__]
        for n in cols:
            v = getattr(s, n, None)
            if isinstance(v, (float, np.floating)):
                r.append(float(v).hex() if np.isfinite(v) else repr(float(v)))
            elif isinstance(v, (int, np.integer)):
                r.append(int(v))
            else:
                r.append(str(v))
        out.append(r)
    return out


def check_rows(sources, res, what, F, c, docov):
    comps = [s for s in sources if isinstance(s, ComponentSource)]
    isles = [s for s in sources if isinstance(s, IslandSource)]
    tags = dict(mode=c["mode"])
    prior = c["mode"] != "blind"
    seen = set()
    uu = set()
    by_island = {}
    for s in comps:
        key = (int(s.island), int(s.source))
        if key in seen:
            res.bad("island-source-unique", "%s: (island, source) = %r appears twice" % (what, key), **tags)
            break
        seen.add(key)
        if s.uuid in uu:
            res.bad("uuid-unique", "%s: uuid %s appears twice" % (what, s.uuid), **tags)
            break
        uu.add(s.uuid)
        by_island.setdefault(int(s.island), []).append(int(s.source))
    for isl, nums in by_island.items():
        if sorted(nums) != list(range(len(nums))):
            res.bad("source-numbering", "%s: island %d has sources numbered %r" % (what, isl, sorted(nums)), **tags)
            break
    for s in comps:
        fl = int(s.flags)
        t2 = dict(tags, flags=fl)
        where = "%s: component (%d,%d) flags=%d" % (what, s.island, s.source, fl)
        if fl & ~0x7F:
            res.bad("flag-bits", "%s uses undocumented flag bits" % where, **tags)
        notfit = bool(fl & (flags.NOTFIT | flags.FITERR))
        unfit_vals = not np.isfinite(s.peak_flux)
        if unfit_vals and (fl & flags.NOTFIT):
            continue                                   # a component that was not fitted carries no measurements
        if not (s.a >= s.b > 0):
            res.bad("a-ge-b", "%s: a=%r b=%r" % (where, s.a, s.b), **tags)
        if not (-90 < s.pa <= 90):
            res.bad("pa-range", "%s: pa=%r" % (where, s.pa), **tags)
        if not (0 <= s.ra < 360 and abs(s.dec) <= 90):
            res.bad("coordinate-range", "%s: ra=%r dec=%r" % (where, s.ra, s.dec), **tags)
        if not notfit:
            for n in ("err_ra", "err_dec", "err_peak_flux", "err_a", "err_b", "err_pa", "err_int_flux"):
                v = getattr(s, n)
                if not (v == -1 or (np.isfinite(v) and v > 0)):
                    res.bad("error-column", "%s: %s = %r (neither positive finite nor -1)" % (where, n, v), column=n,
                            small=bool(fl & (flags.FITERRSMALL | flags.FIXED2PSF)), **tags)
                    break
        # sexagesimal strings agree with the decimal coordinates
        try:
            ok = abs(float(refs.angdiff(ra2dec(s.ra_str), s.ra))) <= 0.0075 / 3600 * 1.000001 * 15 / 15 * 10 and \
                abs(dec2dec(s.dec_str) - s.dec) <= 0.005 / 3600 * 1.000001 + 1e-12
            ok = ok and abs(float(refs.angdiff(ra2dec(s.ra_str), s.ra))) <= 0.005 * 15 / 3600 * 1.000001 + 1e-12
        except Exception:
            ok = False
        if not ok:
            res.bad("sexagesimal", "%s: ra_str=%r dec_str=%r for ra=%r dec=%r" % (where, s.ra_str, s.dec_str, s.ra, s.dec), **tags)
        if s.psf_a > 0 and s.psf_b > 0 and np.isfinite(s.int_flux):
            want = s.peak_flux * s.a * s.b / (s.psf_a * s.psf_b)
            if not abs(s.int_flux - want) <= 0.01 * abs(want) + 1e-12:
                res.bad("int-flux-relation", "%s: int_flux=%r but peak*a*b/(psf_a*psf_b)=%r" % (where, s.int_flux, want), **tags)
        if prior and not (fl & flags.PRIORIZED):
            res.bad("priorized-flag", "%s: priorized output without the PRIORIZED flag" % where, **tags)
        if len(res.violations) > 3:
            break
    # ---- island rows against the component rows and the detected pixels
    if isles and not prior:
        snr = np.abs(F["img"]) / 1.0
        kept, _ = refs.bfs_islands(snr, 4.0, 5.0)
        kept = sorted(kept, key=lambda g: min(g))
        ncomp = {}
        for s in comps:
            ncomp[int(s.island)] = ncomp.get(int(s.island), 0) + 1
        if len(set(int(i.island) for i in isles)) != len(isles):
            res.bad("island-rows-unique", "%s: two island rows share an island number" % what, **tags)
        for i in isles:
            k = int(i.island) - 1
            where = "%s: island row %d" % (what, i.island)
            if int(i.components) != ncomp.get(int(i.island), 0):
                res.bad("island-components", "%s says %r components, the catalogue has %d component rows" % (
                    where, i.components, ncomp.get(int(i.island), 0)), **tags)
                break
            if not (0 <= k < len(kept)):
                res.bad("island-unknown", "%s does not correspond to a detected island (%d detected)" % (where, len(kept)), **tags)
                break
            g = kept[k]
            strict = [p for p in g if snr[p] > 4.0]
            rs = [p[0] for p in g]
            cs = [p[1] for p in g]
            vals = np.array([F["img"][p] for p in strict]) if strict else np.array([np.nan])
            peak = vals[np.argmax(np.abs(vals))] if strict else np.nan
            pmax = np.nanmax(vals)
            want_peak = pmax if pmax >= 0 else np.nanmin(vals)
            if int(i.pixels) != len(strict):
                res.bad("island-pixels", "%s has pixels=%r, the detected island has %d pixels above the flood level" % (
                    where, i.pixels, len(strict)), **tags)
                break
            if not (int(i.x_width) == max(rs) - min(rs) + 1 and int(i.y_width) == max(cs) - min(cs) + 1):
                res.bad("island-extent", "%s has widths (%r,%r), the detected island spans (%d,%d)" % (
                    where, i.x_width, i.y_width, max(rs) - min(rs) + 1, max(cs) - min(cs) + 1), **tags)
                break
            # (scaled storage reproduces a pixel value to an ulp, not bit for bit)
            if not abs(float(i.peak_flux) - float(want_peak)) <= 1e-12 * abs(float(want_peak)):
                res.bad("island-peak", "%s has peak %r, the brightest pixel of the detected island is %r" % (
                    where, float(i.peak_flux), float(want_peak)), **tags)
                break
            # the island row's position is that of its peak pixel (the first one in raster order if several are equal)
            peaks = sorted(p for p in strict if F["img"][p] == want_peak)
            pra, pdec = (np.asarray(v) for v in F["w"].pix2sky(np.array([p[1] for p in peaks]) + 1.0,
                                                                np.array([p[0] for p in peaks]) + 1.0))
            dmin = float(np.min(refs.vsep(pra, pdec, float(i.ra), float(i.dec))))
            if not dmin <= 1e-6:
                res.bad("island-position", "%s is at (%.6f, %.6f), %.3g deg (%.2f px) from its peak pixel" % (
                    where, i.ra, i.dec, dmin, dmin / F["s"]), negative=bool(want_peak < 0), **tags)
                break
            try:
                okstr = abs(float(refs.angdiff(ra2dec(i.ra_str), i.ra))) <= 0.005 * 15 / 3600 * 1.000001 + 1e-12 and \
                    abs(dec2dec(i.dec_str) - i.dec) <= 0.005 / 3600 * 1.000001 + 1e-12
            except Exception:
                okstr = False
            if not okstr:
                res.bad("island-sexagesimal", "%s: ra_str=%r dec_str=%r for ra=%r dec=%r" % (where, i.ra_str, i.dec_str, i.ra, i.dec), **tags)
                break
    return comps, isles


def check_case(c):
    res = Res()
    if c["mode"] == "prior-synth":
        c = dict(c, field=synth_field(c))
    if c["field"]["noise"] == "white" and c["field"]["size_max"] > 1.5:
        # runtime only: pixel-scale noise on a broad faint source makes one summit per noise peak (tens of components)
        c = dict(c, field=dict(c["field"], size_max=1.5))
    if c.get("far"):
        c = dict(c, field=dict(c["field"], far=c["far"]))
    if c["field"]["noise"] != "none" and c["mode"] != "prior-synth":
        # runtime only (as in C13): crowded noisy fields merge into islands with many summits, each of which takes the
        # optimiser minutes with the covariance weighting
        fc = dict(c["field"])
        fc["nsrc"] = min(fc["nsrc"], 10 if fc["layout"] == "random" else 24)
        fc["blend_rate"] = min(fc["blend_rate"], 0.2)
        c = dict(c, field=fc)
    if c.get("intpix"):
        c = dict(c, field=dict(c["field"], nan_rects=0), rep={k: v for k, v in (c.get("rep") or {}).items() if k != "bscale"})
    F = fields.build_field(c["field"])
    if c.get("intpix"):
        F["img"] = np.round(F["img"])
    what = "%s (noise=%s, %d truth sources, islandflux=%s max_summits=%s stage=%d regroup=%s)" % (
        c["mode"], c["field"]["noise"], len(F["truth"]), c["islandflux"], c["max_summits"], c["stage"], c["regroup"])
    d = workdir("c03_")
    try:
        path = os.path.join(d, "im.fits")
        skyimg.write_fits(path, F["img"], F["hdr"], rep=c.get("rep"), dtype={"i2": np.int16, "i4": np.int32}.get(c.get("intpix"), np.float64))
        sources, docov = run_case(c, path, F)
        comps, isles = check_rows(sources, res, what, F, c, docov)
        if c["table"] and comps and not res.violations:
            # the tables written by save_catalog carry the same rows
            save_catalog(os.path.join(d, "out." + c["table"]), sources)
            t = table_to_source_list(load_table(os.path.join(d, "out_comp." + c["table"])))
            if [(int(s.island), int(s.source)) for s in t] != [(int(s.island), int(s.source)) for s in comps]:
                res.bad("table-rows", "%s: the %s table does not hold the returned components in order" % (what, c["table"]))
        if c.get("cli") and c["mode"] == "blind" and not res.violations:
            # the command line writes its tables from the finder object's accumulated source list: two invocations in one
            # process must each write exactly the rows the API returns
            from vlib.cli import run_aegean
            argv = ["--forcerms", 1.0, "--forcebkg", 0.0, "--negative"] + ([] if docov else ["--nocov"])
            if c["max_summits"] is not None:
                argv += ["--maxsummits", c["max_summits"]]
            want = sorted((int(x.island), int(x.source), float(x.peak_flux)) for x in comps)
            for k in (1, 2):
                rc, rows = run_aegean(path, d, "run%d" % k, argv)
                got = sorted((int(x.island), int(x.source), float(x.peak_flux)) for x in rows)
                if rc not in (0, None) or got != want:
                    res.bad("cli-table-rows", "%s: invocation %d of `aegean --table` in one process wrote %d component rows, the "
                            "API returns %d%s" % (what, k, len(got), len(want), " (duplicated (island, source) pairs)" if
                                                  len(set(g[:2] for g in got)) < len(got) else ""), invocation=k)
                    break
            res.label("cli")
        if c["rerun"] != "none" and not res.violations:
            first = rows_as_json(sources)
            if c["rerun"] == "inproc":
                again, _ = run_case(c, path, F)
                second = rows_as_json(again)
            else:
                cj = os.path.join(d, "case.json")
                json.dump(enc(c), open(cj, "w"))
                oj = os.path.join(d, "rows.json")
                env = dict(os.environ, VERIF_REPO=REPO)
                p = subprocess.run([sys.executable, CHILD, cj, path, oj], env=env, capture_output=True, text=True, timeout=1800)
                if p.returncode != 0 or not os.path.exists(oj):
                    raise HarnessError("c03_child failed: %s" % p.stderr[-1500:])
                second = json.load(open(oj))
            if first != second:
                k = next((i for i, (x, y) in enumerate(zip(first, second)) if x != y), min(len(first), len(second)))
                res.bad("rerun-differs", "%s: re-running (%s) gives a different catalogue (%d vs %d rows; first difference in row %d)" % (
                    what, c["rerun"], len(first), len(second), k), rerun=c["rerun"])
            res.label("rerun-" + c["rerun"])
    finally:
        shutil.rmtree(d, ignore_errors=True)
    multi = len(set((s.island) for s in comps)) < len(comps)
    flagged = any(int(s.flags) & 0x3F for s in comps)
    groups = len(set(int(s.island) for s in comps))
    res.nontrivial = bool(len(sources) >= 2 and (multi or flagged or isles or (c["mode"] != "blind" and groups > 20)))
    res.label("mode-" + c["mode"])
    if flagged:
        res.label("flagged-row")
    if multi:
        res.label("multi-component-island")
    if c["mode"] != "blind" and groups > 20:
        res.label(">20-groups")
    res.stat("rows", len(sources))
    return res


def batches_case(c):
    """priorized fitting in batches of 20 groups where the FIRST batch loses groups: isolated single-component islands on a
    noise-free field, 1-3 unmeasurable catalogue entries among the first ten rows (cheap: a second or two per case)"""
    fc = dict(c["field"], blend_rate=0.0, noise="none", mixed_rate=0.0, spikes=0, specks=0, nan_rects=0, neg_rate=0.0)
    return dict(c, mode="prior-synth", field=fc, unmeasurable=1 + c["field"]["seed"] % 3, rerun="none", cli=False, table=None,
                far=0, intpix=None, cores=1, ngroups=21 + c["ngroups"] % 30)


TESTS = {
    "catalogue": {"strategy": lambda tier: case_strategy, "check": check_case,
                  "n": {"quick": 64, "thorough": 3000}},
    "batches": {"strategy": lambda tier: case_strategy.map(batches_case), "check": check_case,
                "n": {"quick": 32, "thorough": 600}},
}
