"""C01 - closed-loop recovery: an injected isolated Gaussian is found and characterised (source_finder, fitting, wcs)"""
import math
import os
import shutil
import tempfile

import numpy as np
from hypothesis import strategies as st

from AegeanTools.source_finder import SourceFinder
from vlib import refs, skyimg
from vlib.core import Res, workdir

PROP = "C01"
SHARDS = {"quick": 16, "thorough": 16}
TIME_LIMIT = {"quick": 2400, "thorough": 8 * 3600}
CASE_TIMEOUT_S = 300   # a case that takes longer is inconclusive (counted as ambiguous), never a violation
RULE = ("Hypothesis: header = projection in {SIN,TAN,ZEA,ARC,STG}, CRVAL1 in {0.0005, 359.9995, uniform}, |CRVAL2| <= 85 "
        "(weighted to > 70), pixel scale 1..60 arcsec, image 64..160 px (rows != cols), CRPIX on or off the image with every "
        "pixel within 1.4 deg of the reference point, beam BMIN 4..8 px, BMAJ/BMIN 1..2, any BPA; source defined on the sky: "
        "sub-pixel centre with its 5-sigma footprint inside the image, shape = beam convolved with an intrinsic Gaussian "
        "(axis ratio >= 1.05), any PA, SNR 20..500; options docov on/off, forced rms/bkg (incl. a constant background) or "
        "internal BANE (noisy clause), cores 1/2/4. The image is rendered by the harness's own WCS and spherical formulas. "
        "Noise-free: one component within 0.02 px / 0.1 % / 0.5 % / 0.5 deg / 0.5 %. Noisy: white noise with docov=False, "
        "model-covariance noise (FFT) with docov=True; every parameter within 5 reported errors, an excursion is confirmed "
        "on 5 fresh noise realisations (violation if >= 3 repeat). Non-trivial = a component was found and all tolerances "
        "were evaluated; distinct by (projection, dec bin, sampling bin, axis-ratio bin, PA octant, options).")
ASSUMPTIONS = [
    "every image pixel within 1.4 deg of the projection reference point: Aegean keeps one pixel beam per image, so PA and "
    "integrated flux drift as ~1.5 R^2 with distance R from the reference point (measured)",
    "white noise is paired with docov=False, model-covariance noise with docov=True; the other pairings are not claims of the code",
    "white-noise clause: SNR >= 50 and major axis <= 10 px (pixel-scale noise on a broad faint source creates a second summit)",
    "known finding K1 (amplitude upper bound below the true peak for coarse sampling at high SNR) is excluded by construction",
]
f = st.floats

header_st = st.fixed_dictionaries({
    "proj": st.sampled_from(refs.ZWCS.PROJ),
    "crval1": st.one_of(f(0, 360, exclude_max=True), st.sampled_from([0.0005, 359.9995])),
    "crval2": st.one_of(f(-85, 85), f(70, 85), f(-85, -70)),
    "scale": st.one_of(f(1, 60), st.sampled_from([1.0, 60.0, 10.0])),
    "rows": st.integers(64, 160), "cols": st.integers(64, 160),
    "crpix_dir": f(0, 360), "crpix_frac": st.one_of(st.just(0.0), f(0, 1), f(0.8, 1)),
    "bmin": f(4, 8), "bratio": f(1, 2), "bpa": f(-90, 90),
    # rotation of the pixel axes against the sky (CD matrix with off-diagonal terms); 0 = the CDELT header
    "rot": st.sampled_from([0.0, 0.0, 0.0, 0.0, 0.0, 5.0, -25.0, 90.0, 137.0]),
})

source_st = st.fixed_dictionaries({
    "fx": f(0, 1), "fy": f(0, 1),
    "int_a": f(0, 1.5), "int_ratio": f(0.3, 1.0), "int_pa": f(-90, 90),
    "snr": st.one_of(f(20, 500), f(50, 200)),
    "negative": st.sampled_from([False, False, False, True]),
    # special sub-pixel positions: exactly on a pixel centre, half-way between two pixels, on a pixel corner
    "snap": st.sampled_from(["none", "none", "none", "centre", "half-x", "half-y", "corner"]),
})

nf_case = st.fixed_dictionaries({
    "rep": skyimg.rep_strategy,      # how the image is stored (CD matrix, degenerate axes, BSCALE/BZERO)
    "hdr": header_st, "src": source_st,
    "docov": st.sampled_from([True, False]), "bkg": st.sampled_from([None, None, 0.0, 3.5, -20.0]),
    "bitpix": st.sampled_from([-64, -64, -32]),
    "cli": st.sampled_from([False, False, False, True]),
})

def _big(c):
    """with covariance weighting, one case in six is a bright source on a broad beam: an island of 1000-3000 pixels (the
    size at which an implementation might stop building the pixel covariance)"""
    if c["docov"] and c["seed"] % 6 == 0:
        c = dict(c, hdr=dict(c["hdr"], bmin=8.0, bratio=max(c["hdr"]["bratio"], 1.8), rows=160, cols=160),
                 src=dict(c["src"], int_a=max(c["src"]["int_a"], 1.2), snr=max(c["src"]["snr"], 300.0), snap="none"))
    return c


noisy_case = st.fixed_dictionaries({
    "rep": skyimg.rep_strategy,      # how the image is stored (CD matrix, degenerate axes, BSCALE/BZERO)
    "hdr": header_st, "src": source_st,
    "docov": st.sampled_from([True, True, False]), "internal": st.sampled_from([False, False, True]),
    "cores": st.sampled_from([1, 2, 4]), "seed": st.integers(0, 2 ** 31 - 1),
}).map(_big)


def build(c, white_clause=False):
    """-> dict with w, hdr, shape, source (sky), truth, or None when the generated source does not fit on the image"""
    h = c["hdr"]
    s = h["scale"] / 3600.0
    rows, cols = h["rows"], h["cols"]
    # keep the whole field within 1.3 deg of the image centre, and the reference pixel within 1.4 deg of every pixel
    maxhalf = 1.3 / s
    if math.hypot(rows, cols) / 2.0 > maxhalf * 0.9:
        k = maxhalf * 0.9 / (math.hypot(rows, cols) / 2.0)
        rows, cols = max(48, int(rows * k)), max(48, int(cols * k))
    halfdiag = math.hypot(rows, cols) / 2.0
    room = max(0.0, 1.4 / s - halfdiag)
    off = h["crpix_frac"] * min(room, 4000.0)
    crpix = ((cols + 1) / 2.0 + off * math.cos(math.radians(h["crpix_dir"])),
             (rows + 1) / 2.0 + off * math.sin(math.radians(h["crpix_dir"])))
    bratio = h["bratio"]
    if white_clause:
        bratio = min(bratio, 9.0 / h["bmin"])       # white-noise clause: keep the major axis <= 10 px (see ASSUMPTIONS)
    bmaj_px = h["bmin"] * bratio
    w, hdr = skyimg.make_header(h["proj"], (h["crval1"], h["crval2"]), crpix, h["scale"], (rows, cols),
                                (bmaj_px, 1.0 / bratio, h["bpa"]), rot=h.get("rot", 0.0))
    beam = (hdr["BMAJ"], hdr["BMIN"], hdr["BPA"])
    sc = c["src"]
    int_a = sc["int_a"]
    if white_clause:
        # a^2 <= bmaj^2 + int_a^2 bmaj^2 <= (10 px)^2
        int_a = min(int_a, math.sqrt(max((9.9 / bmaj_px) ** 2 - 1.0, 0.0)))
    intr = (int_a * hdr["BMAJ"] + 1e-9, max(int_a * hdr["BMAJ"] * sc["int_ratio"], 1e-9), sc["int_pa"])
    a, b, pa = skyimg.convolve(beam, intr)
    if a / b < 1.05:
        # stretch the intrinsic part until the position angle is defined
        intr = (max(intr[0], 0.6 * hdr["BMAJ"]), intr[1] * 0.2, intr[2])
        a, b, pa = skyimg.convolve(beam, intr)
        if a / b < 1.05:
            return None
    if white_clause and a / s > 10:
        return None
    sig_px = a * skyimg.FWHM2SIG / s
    margin = 5 * sig_px + 2
    if 2 * margin + 2 > min(rows, cols):
        return None
    px = 1 + margin + sc["fx"] * (cols - 2 * margin - 1)     # FITS axis1 (column) coordinate
    py = 1 + margin + sc["fy"] * (rows - 2 * margin - 1)
    snap = sc.get("snap", "none")
    if snap != "none":
        px = math.floor(px) + (0.5 if snap in ("half-x", "corner") else 0.0)
        py = math.floor(py) + (0.5 if snap in ("half-y", "corner") else 0.0)
    ra, dec = (float(v) for v in w.pix2sky(px, py))
    amp = -1.0 if sc["negative"] else 1.0
    src = {"ra": ra, "dec": dec, "peak": amp, "a": a, "b": b, "pa": pa}
    snr = max(sc["snr"], 50.0) if white_clause else sc["snr"]
    return {"w": w, "hdr": hdr, "shape": (rows, cols), "src": src, "rms": 1.0 / snr, "s": s, "snr": snr,
            "int": amp * a * b / (hdr["BMAJ"] * hdr["BMIN"]), "beam": beam, "pix": (px, py)}


def run_finder(path, rms, bkg, docov, cores=1, rep=None):
    sf = SourceFinder()
    return sf.find_sources_in_image(path, rms=rms, bkg=bkg, innerclip=5, outerclip=4, cores=cores, docov=docov, **skyimg.cube_kw(rep))


def stratum(c, B):
    h = c["hdr"]
    samp = B["src"]["b"] / B["s"]
    return {"proj": h["proj"], "dec": int(abs(h["crval2"]) // 30), "samp": int(min(samp, 20) // 4),
            "ratio": int(min(B["src"]["a"] / B["src"]["b"], 3) * 2), "pa": int((B["src"]["pa"] + 90) // 45),
            "docov": c["docov"], "opt": str(c.get("bkg")) + str(c.get("internal"))}


def compare(B, comp):
    """errors of a fitted component against the injected truth"""
    src = B["src"]
    dpos = float(refs.vsep(src["ra"], src["dec"], comp.ra, comp.dec)) / B["s"]
    return {
        "pos_px": dpos,
        "dra": float(refs.angdiff(comp.ra, src["ra"])) * math.cos(math.radians(src["dec"])),
        "ddec": comp.dec - src["dec"],
        "peak": comp.peak_flux - src["peak"],
        "a": comp.a / 3600.0 - src["a"],
        "b": comp.b / 3600.0 - src["b"],
        "pa": float(refs.angdiff(comp.pa, src["pa"], 180.0)),
        "int": comp.int_flux - B["int"],
    }


def check_noise_free(c):
    res = Res()
    B = build(c)
    if B is None:
        res.label("source-does-not-fit")
        return res
    img = skyimg.render(B["w"], B["shape"], [B["src"]])
    # K1: the documented amplitude bound 1.05*brightest pixel + 3 rms must not exclude the truth
    peakpix = float(np.max(np.abs(img)))
    k1 = bool(abs(B["src"]["peak"]) > 1.05 * peakpix + 3 * B["rms"])
    if k1 and not c.get("allow_K1"):
        res.excluded_known += 1
        res.label("excluded-K1")
        return res
    bkg = c["bkg"]
    d = workdir("c01_")
    try:
        path = os.path.join(d, "im.fits")
        single = c.get("bitpix", -64) == -32
        skyimg.write_fits(path, img + (bkg or 0.0), B["hdr"], dtype=np.float32 if single else np.float64, rep=c.get("rep"))
        comps = run_finder(path, B["rms"], bkg if bkg is not None else None, c["docov"], rep=c.get("rep"))
        cli_rows = None
        if c.get("cli"):
            # the command line (aegean IMAGE --table) must report the same component
            from vlib.cli import run_aegean
            argv = ["--forcerms", B["rms"], "--negative"] + ([] if c["docov"] else ["--nocov"])
            if bkg is not None:
                argv += ["--forcebkg", bkg]
            rc, cli_rows = run_aegean(path, d, "find", argv)
            if rc not in (0, None):
                cli_rows = None
                res.bad("cli-run", "aegean returned %r" % (rc,))
    finally:
        shutil.rmtree(d, ignore_errors=True)
    if cli_rows is not None:
        def key(s_):
            return tuple(float(v) for v in (s_.ra, s_.dec, s_.peak_flux, s_.a, s_.b, s_.pa, s_.int_flux, s_.flags))
        if sorted(key(s_) for s_ in cli_rows) != sorted(key(s_) for s_ in comps):
            res.bad("cli-table", "the table written by `aegean --table` has %d rows, the API returns %d (or their values differ)" % (
                len(cli_rows), len(comps)))
        res.label("cli")
    tags = dict(proj=c["hdr"]["proj"], docov=c["docov"], amplitude_bound_excludes_truth=k1)
    what = "%s dec0=%.1f scale=%.1f\" %dx%d src (a=%.2f b=%.2f px, pa=%.1f) snr=%.0f docov=%s" % (
        c["hdr"]["proj"], c["hdr"]["crval2"], c["hdr"]["scale"], B["shape"][0], B["shape"][1],
        B["src"]["a"] / B["s"], B["src"]["b"] / B["s"], B["src"]["pa"], c["src"]["snr"], c["docov"])
    if len(comps) != 1:
        res.bad("component-count", "%s: %d components reported for one isolated Gaussian" % (what, len(comps)), **tags)
        return res
    comp = comps[0]
    e = compare(B, comp)
    src = B["src"]
    if comp.flags != 0:
        res.label("flags-%d" % comp.flags)
    checks = [
        ("position", e["pos_px"] <= 0.02, "position off by %.4g px" % e["pos_px"]),
        ("peak", abs(e["peak"]) <= 1e-3 * abs(src["peak"]), "peak %.6g vs %.6g" % (comp.peak_flux, src["peak"])),
        ("major-axis", abs(e["a"]) <= 5e-3 * src["a"], "a off by %.3g %%" % (100 * e["a"] / src["a"])),
        ("minor-axis", abs(e["b"]) <= 5e-3 * src["b"], "b off by %.3g %%" % (100 * e["b"] / src["b"])),
        ("position-angle", abs(e["pa"]) <= 0.5, "pa %.3f vs %.3f" % (comp.pa, src["pa"])),
        ("int-flux", abs(e["int"]) <= 5e-3 * abs(B["int"]), "int_flux %.6g vs %.6g" % (comp.int_flux, B["int"])),
    ]
    for clause, ok, msg in checks:
        if not ok:
            res.bad(clause, "%s: %s (flags=%d)" % (what, msg, comp.flags), **tags)
    res.stat("nf_pos_px", e["pos_px"])
    res.stat("nf_peak_rel", e["peak"] / src["peak"])
    res.stat("nf_a_rel", e["a"] / src["a"])
    res.stat("nf_b_rel", e["b"] / src["b"])
    res.stat("nf_pa_deg", e["pa"])
    res.stat("nf_int_rel", e["int"] / B["int"])
    res.nontrivial = True
    res.key = stratum(c, B)
    res.label("proj-" + c["hdr"]["proj"], "docov" if c["docov"] else "nocov")
    if c.get("bitpix", -64) == -32:
        res.label("bitpix-32")
    if c["src"].get("snap", "none") != "none":
        res.label("snap-" + c["src"]["snap"])
    if abs(c["hdr"]["crval2"]) > 70:
        res.label("high-dec")
    if src["peak"] < 0:
        res.label("negative-source")
    return res


PARAMS = ["ra", "dec", "peak", "a", "b", "pa", "int"]


def one_noisy_run(c, B, seed, d):
    rng = np.random.default_rng(seed)
    img = skyimg.render(B["w"], B["shape"], [B["src"]])
    sigma = B["rms"]
    if c["docov"]:
        cov = skyimg.pixel_beam(B["w"], B["hdr"]) / 2.0      # documented model: the pixel beam scaled by 1/sqrt(2)
        noise = skyimg.correlated_noise(B["shape"], cov, rng, sigma)
    else:
        noise = rng.normal(size=B["shape"]) * sigma
    path = os.path.join(d, "im_%d.fits" % (seed % 100000))
    skyimg.write_fits(path, img + noise, B["hdr"], rep=c.get("rep"))
    if c["internal"]:
        comps = run_finder(path, None, None, c["docov"], cores=c["cores"], rep=c.get("rep"))
    else:
        comps = run_finder(path, sigma, 0.0, c["docov"], rep=c.get("rep"))
    # the injected source: the component nearest to it (noise peaks elsewhere in the image are not the subject)
    near = [k for k in comps if float(refs.vsep(B["src"]["ra"], B["src"]["dec"], k.ra, k.dec)) / B["s"] <
            max(3.0, B["src"]["a"] / B["s"])]
    return comps, near


def zscores(B, comp):
    e = compare(B, comp)
    errs = {"ra": comp.err_ra, "dec": comp.err_dec, "peak": comp.err_peak_flux, "a": comp.err_a / 3600.0,
            "b": comp.err_b / 3600.0, "pa": comp.err_pa, "int": comp.err_int_flux}
    delta = {"ra": e["dra"], "dec": e["ddec"], "peak": e["peak"], "a": e["a"], "b": e["b"], "pa": e["pa"], "int": e["int"]}
    z = {}
    for p in PARAMS:
        er = errs[p]
        if er is None or not np.isfinite(er) or er <= 0:
            z[p] = None           # reported as -1: counted, not judged
        else:
            z[p] = delta[p] / er
    return z


def check_noisy(c):
    res = Res()
    B = build(c, white_clause=not c["docov"])
    if B is None:
        res.label("outside-noisy-domain")
        return res
    clean = skyimg.render(B["w"], B["shape"], [B["src"]])
    if abs(B["src"]["peak"]) > 1.05 * float(np.max(np.abs(clean))) + 3 * B["rms"] and not c.get("allow_K1"):
        res.excluded_known += 1
        res.label("excluded-K1")
        return res
    d = workdir("c01n_")
    try:
        comps, near = one_noisy_run(c, B, c["seed"], d)
        what = "%s dec0=%.1f scale=%.1f\" src (a=%.2f b=%.2f px pa=%.1f) snr=%.0f docov=%s internal=%s" % (
            c["hdr"]["proj"], c["hdr"]["crval2"], c["hdr"]["scale"], B["src"]["a"] / B["s"], B["src"]["b"] / B["s"],
            B["src"]["pa"], B["snr"], c["docov"], c["internal"])
        bad = []
        if len(near) != 1:
            bad.append("count")
            z = {}
        else:
            z = zscores(B, near[0])
            for p in PARAMS:
                if z[p] is not None:
                    res.stat("z_" + p, z[p])
                    if abs(z[p]) > 5:
                        bad.append(p)
        if bad:
            # confirm on 5 fresh noise realisations: a unit or convention error fails all five, a statistical tail does not
            repeat = {p: 0 for p in bad}
            for k in range(5):
                _, near2 = one_noisy_run(c, B, c["seed"] + 7919 * (k + 1), d)
                if len(near2) != 1:
                    if "count" in repeat:
                        repeat["count"] += 1
                    continue
                z2 = zscores(B, near2[0])
                for p in bad:
                    if p != "count" and z2[p] is not None and abs(z2[p]) > 5:
                        repeat[p] += 1
            for p, n in repeat.items():
                if n >= 3:
                    if p == "count":
                        res.bad("noisy-component-count", "%s: %d components at the injected position (repeated in %d of 5 "
                                "fresh noise realisations)" % (what, len(near), n), docov=c["docov"])
                    else:
                        res.bad("noisy-" + p, "%s: %s is %.1f reported errors from the truth (and > 5 in %d of 5 fresh noise "
                                "realisations)" % (what, p, z[p], n), parameter=p, docov=c["docov"])
                else:
                    res.label("tail-not-confirmed")
        judged = sum(1 for p in PARAMS if z.get(p) is not None)
        res.nontrivial = bool(len(near) == 1 and judged >= 5)
        res.key = dict(stratum(c, B), noisy=True)
        res.label("noisy-docov" if c["docov"] else "noisy-white", "internal-bane" if c["internal"] else "forced-rms")
    finally:
        shutil.rmtree(d, ignore_errors=True)
    return res


TESTS = {
    "noise_free": {"strategy": lambda tier: nf_case, "check": check_noise_free,
                   "n": {"quick": 960, "thorough": 16000}},
    "noisy": {"strategy": lambda tier: noisy_case, "check": check_noisy,
              "n": {"quick": 640, "thorough": 8000}},
}
