"""C10 - masking keeps or removes exactly the pixels/rows whose position is in the region (MIMAS.mask_*)"""
import copy
import math
import os
import shutil
import tempfile

import healpy as hp
import numpy as np
from astropy.io import fits
from astropy.table import Table
from astropy.wcs import WCS
from hypothesis import strategies as st

from AegeanTools import MIMAS
from AegeanTools.catalogs import load_table
from AegeanTools.regions import Region
from vlib import refs
from vlib.core import Res, workdir

PROP = "C10"
SHARDS = {"quick": 8, "thorough": 16}
RULE = ("Hypothesis: images 4..64 x 4..64 (rows != cols mostly), 2-D, 3-D cubes of 2-3 planes and degenerate 4-D, five zenithal "
        "projections, CRPIX on or far off the image, CDELT2 of either sign, pixel scale 20 arcsec..0.5 deg; region = 1-3 circles "
        "/ convex polygons centred on generated image pixels with radii 1..40 px at a depth whose HEALPix resolution is "
        "1/8..2 pixels; negate on/off; mask_plane directly and mask_file through files. Tables of 0..200 rows with NaN "
        "coordinates, extra columns of several dtypes, custom column names, mask_table and mask_catalog (csv/fits; astropy cannot infer a writer for .vot/.xml/.tab names, which is what catalogs.write_table relies on). "
        "Oracle per pixel/row: position (harness WCS for pixels, 0-based (i,j) <-> FITS (j+1,i+1)) -> hp.ang2pix(nest) -> "
        "membership in the region's deepest-level pixel set. Positions whose membership changes under a 1e-9 deg perturbation "
        "are counted as ambiguous. Non-trivial = both blanked and kept pixels and >= 1 neighbouring pair on opposite sides; "
        "tables: both kept and removed rows; distinct = distinct case.")
ASSUMPTIONS = [
    "every image pixel lies within a projection-plane radius of 50 deg of the reference point (SIN assigns no "
    "sky position to a pixel)",
    "rotation-free CDELT headers; the region's own correctness is C08/C09's job (the oracle reads the region's pixel set)",
    "4-D inputs are degenerate (one axis of length 1), which is what mask_file squeezes",
]
f = st.floats


def _az(t):
    start, w = t
    tot = sum(w)
    az, a = [], start
    for wi in w:
        az.append(a % 360.0)
        a += 360.0 * wi / tot
    return az


shape_st = st.fixed_dictionaries({
    "kind": st.sampled_from(["circle", "circle", "poly"]),
    "at": st.tuples(f(-0.2, 1.2), f(-0.2, 1.2)),          # centre as a fraction of the image
    "rpix": f(1, 40),
    "az": st.tuples(f(0, 360, exclude_max=True), st.lists(f(1.0, 1.6), min_size=3, max_size=6)).map(_az),
})

image_case = st.fixed_dictionaries({
    "shape": st.tuples(st.integers(4, 64), st.integers(4, 64)),
    "proj": st.sampled_from(refs.ZWCS.PROJ),
    "crval": st.tuples(st.one_of(f(0, 360, exclude_max=True), st.sampled_from([0.001, 359.999])), f(-80, 80)),
    "crpix_frac": st.one_of(st.tuples(f(0, 1), f(0, 1)), st.tuples(f(-3, 4), f(-3, 4))),
    "scale": f(math.log10(20 / 3600.0), math.log10(0.5)).map(lambda e: 10 ** e),
    "flipy": st.booleans(),
    "res_frac": st.sampled_from([0.125, 0.25, 0.5, 0.5, 1.0, 2.0]),
    "shapes": st.lists(shape_st, min_size=1, max_size=3),
    "negate": st.booleans(),
    "cube": st.sampled_from(["2d", "2d", "3d", "4d"]),
    "intpix": st.sampled_from([False, False, False, True]),      # file routes: image stored as 16-bit integers
    "planes": st.integers(2, 3),
    "route": st.sampled_from(["plane", "file", "file", "cli"]),
    "seed": st.integers(0, 2 ** 31 - 1),
})


def build_wcs(c):
    nr, nc = c["shape"]
    s = c["scale"]
    cp1, cp2 = c["crpix_frac"][0] * nc, c["crpix_frac"][1] * nr
    # every pixel must have a sky position: keep the whole image within a projection-plane radius of 50 deg of the reference point (SIN, TAN and
    # friends are undefined at/after 90 deg), by pulling an off-image reference pixel towards the image if needed
    far = max(math.hypot(x - cp1, y - cp2) for x in (1, nc) for y in (1, nr))
    lim = 50.0 / s       # (projection-plane radius: SIN ends at 180/pi = 57.3 deg)
    if far > lim:
        k = lim / far
        cx, cy = (nc + 1) / 2.0, (nr + 1) / 2.0
        cp1, cp2 = cx + (cp1 - cx) * k * 0.9, cy + (cp2 - cy) * k * 0.9
        if max(math.hypot(x - cp1, y - cp2) for x in (1, nc) for y in (1, nr)) > lim:
            cp1, cp2 = cx, cy
    w = refs.ZWCS(c["proj"], c["crval"][0], c["crval"][1], cp1, cp2,
                  -s, -s if c["flipy"] else s)
    hdr = fits.Header()
    for k, v in w.header_cards().items():
        hdr[k] = v
    return w, hdr


def build_region(c, w):
    nr, nc = c["shape"]
    s = c["scale"]
    want = s * c["res_frac"]
    d = int(math.ceil(math.log2(58.6323 / want)))
    d = max(3, min(d, 16))
    resol = math.degrees(hp.nside2resol(2 ** d))
    region = Region(maxdepth=d)
    for sh in c["shapes"]:
        ra, dec = (float(v) for v in w.pix2sky(1 + sh["at"][0] * (nc - 1), 1 + sh["at"][1] * (nr - 1)))
        if not (math.isfinite(ra) and math.isfinite(dec)):
            continue
        r = min(sh["rpix"] * s, 300 * resol)         # bound the number of HEALPix pixels
        if sh["kind"] == "circle":
            region.add_circles(math.radians(ra), math.radians(dec), math.radians(r))
        else:
            verts = [tuple(float(v) for v in refs.vdest(ra, dec, r, az)) for az in sh["az"]]
            try:
                region.add_poly([[math.radians(a), math.radians(b)] for a, b in verts])
            except Exception as e:
                from vlib.core import repo_frame
                if "healpy" in repr(type(e)).lower() or "degenerate" in str(e).lower():
                    continue
                raise
    return region, d


def membership(pixset, d, ra, dec):
    """(inside, ambiguous) arrays for positions in degrees"""
    ra = np.asarray(ra, dtype=float)
    dec = np.asarray(dec, dtype=float)
    ok = np.isfinite(ra) & np.isfinite(dec)
    nside = 2 ** d
    arr = np.fromiter(pixset, dtype=np.int64, count=len(pixset)) if pixset else np.zeros(0, dtype=np.int64)

    def inside(r_, d_):
        out = np.zeros(r_.shape, dtype=bool)
        if ok.any():
            theta = np.radians(90.0 - np.clip(d_[ok], -90, 90))
            pix = hp.ang2pix(nside, theta, np.radians(r_[ok] % 360.0), nest=True)
            out[ok] = np.isin(pix, arr)
        return out
    base = inside(ra, dec)
    amb = np.zeros(ra.shape, dtype=bool)
    eps = 1e-9
    cosd = np.maximum(np.cos(np.radians(np.where(ok, dec, 0.0))), 1e-6)
    for dr, dd in ((eps, 0), (-eps, 0), (0, eps), (0, -eps)):
        amb |= inside(ra + dr / cosd, dec + dd) != base
    return base, amb


def check_image(c):
    res = Res()
    nr, nc = c["shape"]
    w, hdr = build_wcs(c)
    region, d = build_region(c, w)
    pixset = set(int(p) for p in copy.deepcopy(region).get_demoted())
    jj, ii = np.meshgrid(np.arange(nc), np.arange(nr))            # ii = row index, jj = column index (0-based)
    ra, dec = w.pix2sky(jj + 1.0, ii + 1.0)
    inside, amb = membership(pixset, d, ra, dec)
    rng = np.random.default_rng(c["seed"])
    plane = rng.normal(size=(nr, nc)).astype(np.float32)
    pre_nan = rng.random((nr, nc)) < (0.08 if c["seed"] % 3 == 0 else 0.0)      # blanks already in the input
    intpix = bool(c.get("intpix")) and c["route"] != "plane"
    if intpix:
        # the image is stored with BITPIX 16: whole numbers, and no blanks in the input (integers cannot hold NaN)
        plane = np.round(plane * 100).astype(np.float32)
        pre_nan[:] = False
    negate = c["negate"]
    expect_blank = inside if negate else ~inside
    tags = dict(negate=negate, route=c["route"])
    outs = {}
    d_tmp = None
    try:
        if c["route"] == "plane":
            awcs = WCS(hdr, naxis=2)
            for ng in (negate, not negate):
                data = plane.copy()
                data[pre_nan] = np.nan
                out = MIMAS.mask_plane(data, awcs, copy.deepcopy(region), negate=ng)
                outs[ng] = [np.asarray(out)]
        else:
            d_tmp = workdir("c10_")
            nplanes = c["planes"]
            first = plane.copy()
            first[pre_nan] = np.nan              # only the first plane carries the input blanks
            if c["cube"] == "2d":
                arr = first
            elif c["cube"] == "3d":
                arr = np.stack([first] + [plane + k for k in range(1, nplanes)])
            else:
                arr = np.stack([first] + [plane + k for k in range(1, nplanes)])[None]
            hdu = fits.PrimaryHDU(arr.astype(np.int16) if intpix else arr.copy())
            for k, v in w.header_cards().items():
                hdu.header[k] = v
            infile = os.path.join(d_tmp, "in.fits")
            hdu.writeto(infile)
            regfile = os.path.join(d_tmp, "r.mim")
            region.save(regfile)
            for ng in (negate, not negate):
                outfile = os.path.join(d_tmp, "out%d.fits" % int(ng))
                if c["route"] == "cli":
                    from AegeanTools.CLI import MIMAS as mimas_cli
                    rc = mimas_cli.main(["--maskimage", regfile, infile, outfile] + (["--negate"] if ng else []))
                    if rc not in (0, None) or not os.path.exists(outfile):
                        res.bad("cli-maskimage-run", "MIMAS --maskimage returned %r, output exists=%s" % (rc, os.path.exists(outfile)), **tags)
                        return res
                else:
                    MIMAS.mask_file(regfile, infile, outfile, negate=ng)
                got = np.squeeze(fits.getdata(outfile))
                if c["cube"] == "2d":
                    if got.shape != (nr, nc):
                        res.bad("output-shape", "mask_file output shape %r for a %r image" % (got.shape, (nr, nc)), **tags)
                        return res
                    outs[ng] = [got]
                else:
                    if got.shape != (nplanes, nr, nc):
                        res.bad("output-shape", "mask_file output shape %r for a cube %r" % (got.shape, (nplanes, nr, nc)), **tags)
                        return res
                    outs[ng] = [got[k] for k in range(nplanes)]
    finally:
        if d_tmp:
            shutil.rmtree(d_tmp, ignore_errors=True)
    judge = ~amb
    for ng, planes_out in outs.items():
        exp = inside if ng else ~inside
        for k, out in enumerate(planes_out):
            blank = ~np.isfinite(out)
            had_nan = pre_nan if (k == 0) else np.zeros_like(pre_nan)
            if np.any(blank[had_nan] == False):    # noqa: E712
                res.bad("input-blank-lost", "negate=%s plane %d: a pixel that was blank in the input is not blank" % (ng, k))
                break
            blank = blank & ~had_nan                # input blanks are not the mask's doing
            wrong = (blank != (exp & ~had_nan)) & judge
            if wrong.any():
                i, j = [int(v[0]) for v in np.where(wrong)]
                res.bad("wrong-pixels", "negate=%s plane %d: %d pixel(s) differ from the per-pixel oracle, e.g. 0-based (%d,%d) "
                        "at (%.7f, %.7f) is %s but its centre is %s the region" % (
                            ng, k, int(wrong.sum()), i, j, float(ra[i, j]), float(dec[i, j]),
                            "blank" if blank[i, j] else "kept", "inside" if inside[i, j] else "outside"),
                        negate=ng, route=c["route"])
                break
            keep = ~blank & ~had_nan
            ref = plane if c["route"] == "plane" or c["cube"] == "2d" else (plane + k)
            if not np.array_equal(out[keep].astype(np.float32), ref[keep]):
                res.bad("values-changed", "negate=%s plane %d: an unmasked pixel value changed" % (ng, k), negate=ng, route=c["route"])
                break
            if k and not np.array_equal(blank | pre_nan, ~np.isfinite(planes_out[0])):
                res.bad("planes-differ", "plane %d is masked differently from plane 0" % k, route=c["route"])
                break
    if True in outs and False in outs and not res.violations:
        b1 = ~np.isfinite(outs[True][0])
        b0 = ~np.isfinite(outs[False][0])
        if np.any((b1 == b0) & judge & ~pre_nan):
            res.bad("not-complementary", "negate=True and negate=False results are not complementary")
    res.ambiguous += int(amb.sum())
    both = bool(inside.any() and (~inside).any())
    pair = bool(np.any(inside[:, 1:] != inside[:, :-1]) or np.any(inside[1:, :] != inside[:-1, :]))
    res.nontrivial = both and pair
    res.label("route-" + c["route"], "cube-" + c["cube"] if c["route"] != "plane" else "plane", "proj-" + c["proj"])
    if not (0 <= c["crpix_frac"][0] <= 1 and 0 <= c["crpix_frac"][1] <= 1):
        res.label("crpix-off-image")
    return res


# -------------------------------------------------------------------- tables
table_case = st.fixed_dictionaries({
    "centre": st.tuples(st.one_of(f(0, 360, exclude_max=True), st.sampled_from([0.01, 359.99])), f(-85, 85)),
    "depth": st.integers(3, 10),
    "shapes": st.lists(st.tuples(st.sampled_from(["circle", "poly"]), f(-2, 2), f(-2, 2), f(0.5, 3),
                                 st.tuples(f(0, 360, exclude_max=True), st.lists(f(1.0, 1.6), min_size=3, max_size=6)).map(_az)),
                       min_size=1, max_size=3),
    "n": st.one_of(st.integers(0, 12), st.integers(0, 200)),
    "nan_rate": st.sampled_from([0.0, 0.1, 0.5]),
    "masked_rate": st.sampled_from([0.0, 0.0, 0.2, 0.5]),      # in-memory tables: fraction of rows with a masked coordinate cell
    "negate": st.booleans(),
    "cols": st.sampled_from([("ra", "dec"), ("RAJ2000", "DEJ2000"), ("lon", "lat")]),
    "route": st.sampled_from(["table", "table", "csv", "fits", "cli-csv"]),
    "seed": st.integers(0, 2 ** 31 - 1),
})


def check_table(c):
    res = Res()
    ra0, dec0 = c["centre"]
    d = c["depth"]
    resol = math.degrees(hp.nside2resol(2 ** d))
    unit = 8 * resol
    region = Region(maxdepth=d)
    for kind, dx, dy, rr, az in c["shapes"]:
        dist = math.hypot(dx, dy) * unit
        a, b = (float(v) for v in refs.vdest(ra0, dec0, min(dist, 170.0), math.degrees(math.atan2(dx, dy))))
        r = min(rr * unit, 60.0)
        if kind == "circle":
            region.add_circles(math.radians(a), math.radians(b), math.radians(r))
        else:
            verts = [tuple(float(v) for v in refs.vdest(a, b, min(r, 30.0), z)) for z in az]
            try:
                region.add_poly([[math.radians(p), math.radians(q)] for p, q in verts])
            except Exception as e:
                if "healpy" in repr(type(e)).lower() or "degenerate" in str(e).lower():
                    continue
                raise
    pixset = set(int(p) for p in copy.deepcopy(region).get_demoted())
    rng = np.random.default_rng(c["seed"])
    n = c["n"]
    dist = np.abs(rng.normal(scale=3 * unit, size=n))
    az = rng.uniform(0, 360, size=n)
    ra, dec = refs.vdest(np.full(n, ra0), np.full(n, dec0), np.minimum(dist, 175.0), az) if n else (np.zeros(0), np.zeros(0))
    ra, dec = np.array(ra, dtype=float), np.array(dec, dtype=float)
    nanmask = rng.random(n) < c["nan_rate"]
    which = rng.random(n) < 0.5
    ra[nanmask & which] = np.nan
    dec[nanmask & ~which] = np.nan
    racol, deccol = c["cols"]
    tab = Table()
    tab["id"] = np.arange(n, dtype=np.int64)
    tab[racol] = ra
    tab[deccol] = dec
    tab["flux"] = rng.normal(size=n)
    tab["name"] = np.array(["s%05d" % k for k in range(n)], dtype="U8") if n else np.zeros(0, dtype="U8")
    tab["flag"] = (np.arange(n) % 3).astype(np.int32)
    inside, amb = membership(pixset, d, ra, dec)
    # masked cells (astropy MaskedColumn): the coordinate is undefined whatever number lies underneath, and most of the
    # numbers underneath are inside the region here
    mrow = np.zeros(n, dtype=bool)
    if c.get("masked_rate") and c["route"] == "table" and n:
        mrow = rng.random(n) < c["masked_rate"]
        mwhich = rng.random(n) < 0.5
        tab = Table(tab, masked=True)
        tab[racol].mask = mrow & mwhich
        tab[deccol].mask = mrow & ~mwhich
        inside = inside & ~mrow
        amb = amb & ~mrow
        res.label("masked-coordinates")
    negate = c["negate"]
    keep_expected = inside if negate else ~inside
    d_tmp = None
    try:
        if c["route"] == "table":
            out = MIMAS.mask_table(copy.deepcopy(region), tab.copy(), negate=negate, racol=racol, deccol=deccol)
        else:
            if n == 0:
                res.label("empty-table-file-skipped")     # an empty table cannot be written/read by all formats
                out = MIMAS.mask_table(copy.deepcopy(region), tab.copy(), negate=negate, racol=racol, deccol=deccol)
            else:
                d_tmp = workdir("c10t_")
                ext = c["route"].replace("cli-", "")
                infile = os.path.join(d_tmp, "in." + ext)
                outfile = os.path.join(d_tmp, "out." + ext)
                tab.write(infile)
                regfile = os.path.join(d_tmp, "r.mim")
                region.save(regfile)
                if c["route"].startswith("cli-"):
                    from AegeanTools.CLI import MIMAS as mimas_cli
                    rc = mimas_cli.main(["--maskcat", regfile, infile, outfile, "--colnames", racol, deccol] + (["--negate"] if negate else []))
                    if rc not in (0, None) or not os.path.exists(outfile):
                        res.bad("cli-maskcat-run", "MIMAS --maskcat returned %r, output exists=%s" % (rc, os.path.exists(outfile)))
                        return res
                else:
                    MIMAS.mask_catalog(regfile, infile, outfile, negate=negate, racol=racol, deccol=deccol)
                out = load_table(outfile)
    finally:
        if d_tmp:
            shutil.rmtree(d_tmp, ignore_errors=True)
    got_ids = [int(v) for v in out["id"]] if len(out) else []
    if got_ids != sorted(got_ids) or len(set(got_ids)) != len(got_ids):
        res.bad("row-order", "output rows are not in the original order / duplicated: %r" % got_ids[:10], route=c["route"])
        return res
    kept = np.zeros(n, dtype=bool)
    kept[got_ids] = True
    wrong = (kept != keep_expected) & ~amb
    if wrong.any():
        k = int(np.where(wrong)[0][0])
        res.bad("wrong-rows", "negate=%s: row %d at (%r, %r) is %s; it is %s the region%s" % (
            negate, k, float(ra[k]), float(dec[k]), "kept" if kept[k] else "removed", "inside" if inside[k] else "outside",
            " (undefined coordinates)" if not (math.isfinite(ra[k]) and math.isfinite(dec[k])) else ""),
            negate=negate, route=c["route"], nan=bool(not (math.isfinite(ra[k]) and math.isfinite(dec[k]))))
    else:
        for col in tab.colnames:
            a = np.asarray(tab[col])[got_ids]
            b = np.asarray(out[col])
            def txt(x):
                return x.decode() if isinstance(x, bytes) else str(x)
            same = np.array_equal(a, b, equal_nan=True) if a.dtype.kind == "f" else [txt(x) for x in a] == [txt(x) for x in b]
            if not same:
                res.bad("columns-changed", "column %s of the kept rows differs from the input" % col, route=c["route"])
                break
    res.ambiguous += int(amb.sum())
    res.nontrivial = bool(kept.any() and (~kept).any())
    res.label("table-" + c["route"])
    if n == 0:
        res.label("empty-table")
    if nanmask.any():
        res.label("nan-coordinates")
    return res


TESTS = {
    "image": {"strategy": lambda tier: image_case, "check": check_image,
              "n": {"quick": 500, "thorough": 20000}},
    "table": {"strategy": lambda tier: table_case, "check": check_table,
              "n": {"quick": 400, "thorough": 10000}},
}
