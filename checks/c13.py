"""C13 - sign symmetry and polarity filters of the source finder (find_sources_in_image)"""
import math
import os
import shutil
import tempfile

import numpy as np
from astropy.io import fits
from hypothesis import strategies as st

from AegeanTools.models import ComponentSource, IslandSource
from AegeanTools.source_finder import SourceFinder
from vlib import fields, refs, skyimg
from vlib.core import Res, workdir

PROP = "C13"
SHARDS = {"quick": 16, "thorough": 16}
TIME_LIMIT = {"quick": 2400, "thorough": 8 * 3600}
CASE_TIMEOUT_S = 300   # a case that takes longer is inconclusive (counted as ambiguous), never a violation
RULE = ("Hypothesis: messy fields (vlib/fields.py: 0..60 sky-defined sources of both signs, blends, specks, spikes, NaN "
        "rectangles, white or model-covariance noise, several projections), rms/bkg forced or supplied as FITS maps (incl. a "
        "non-zero smooth background map), doislandflux on/off, all four (nopositive, nonegative) settings. Oracles "
        "(metamorphic): the catalogue of (-image, -background) must be the catalogue of (image, background) with peak and "
        "integrated fluxes negated (1e-6 relative), positions (1e-7 deg), shapes and errors (1e-5 relative) and flags "
        "unchanged; positive-only and negative-only catalogues are disjoint, contain only the requested sign and together equal "
        "the both-polarities catalogue exactly. Non-trivial = >= 1 positive and >= 1 negative component and >= 1 "
        "multi-component island; distinct = distinct case.")
ASSUMPTIONS = [
    "rows of the two catalogues are matched by sky position",
    "rows of singular fits (non-positive / non-finite position or flux errors, or a flux error larger than the flux; e.g. a "
    "1-D island of 3 pixels beside a blank block) are compared on sign and flags only, ignoring the FITERR bit, because the "
    "end point of the optimiser is arbitrary there",
    "islands fitted with >= 3 components are compared on count, sign and flags only (several local minima; the optimiser's "
    "end point depends on rounding)",
    "white noise is paired with docov=False and model-covariance noise with docov=True (as in C01)",
    "known finding K2 (islands with pixels of both signs are treated as positive islands) is excluded by construction",
    "the optimiser follows a mirrored but not bit-identical path for the negated image: parameters are compared to 0.3 reported "
    "sigma, reported errors to 25 %, counts/flags/signs exactly",
]

case_strategy = st.fixed_dictionaries({
    "rep": skyimg.rep_strategy,      # how the image is stored (CD matrix, degenerate axes, BSCALE/BZERO)
    "field": fields.field_strategy,
    "aux": st.sampled_from(["forced", "forced", "files"]),
    "bkglevel": st.sampled_from([0.0, 0.0, 2.5, -7.0]),
    "islandflux": st.booleans(),
    "docov": st.sampled_from([False, False, True]),
    "clip": st.sampled_from([(5.0, 4.0), (6.0, 3.0)]),
    "cli": st.sampled_from([False, False, True]),
    "reuse": st.sampled_from([None, None, ["P", "N", "B"], ["N", "B", "P"], ["B", "P", "N"], ["N", "P"], ["P", "B"]]),
})


def run(path, c, bkgval, files, nopositive=False, nonegative=False, finder=None):
    kw = dict(innerclip=c["clip"][0], outerclip=c["clip"][1], docov=c["docov"], cores=1, doislandflux=c["islandflux"],
              nopositive=nopositive, nonegative=nonegative)
    kw.update(skyimg.cube_kw(c.get("rep")))
    if files:
        kw.update(rmsin=files[0], bkgin=files[1])
    else:
        kw.update(rms=1.0, bkg=bkgval)
    return (finder or SourceFinder()).find_sources_in_image(path, **kw)


COMP_FLOATS = ["a", "b", "pa", "err_ra", "err_dec", "err_peak_flux", "err_a", "err_b", "err_pa", "err_int_flux", "local_rms",
               "residual_std", "psf_a", "psf_b"]


def key(s):
    return (round(s.ra, 5), round(s.dec, 5), type(s).__name__, getattr(s, "source", -1))


def close(x, y, rel, absol=0.0):
    if isinstance(x, float) and isinstance(y, float) and math.isnan(x) and math.isnan(y):
        return True
    return abs(x - y) <= rel * max(abs(x), abs(y)) + absol


def rowtuple(s):
    names = ["ra", "dec", "peak_flux", "int_flux", "a", "b", "pa", "flags", "island", "source"] if isinstance(s, ComponentSource) \
        else ["ra", "dec", "peak_flux", "int_flux", "flags", "island", "components", "pixels"]
    out = [type(s).__name__]
    for n in names:
        v = getattr(s, n, None)
        out.append("nan" if isinstance(v, float) and math.isnan(v) else v)
    return tuple(out)


def mixed_sign_islands(img, flood):
    """number of islands (8-connected, |snr| >= flood) that contain pixels of both signs"""
    from scipy.ndimage import label
    snr = np.where(np.isfinite(img), img, 0.0)
    lab, n = label(np.abs(snr) >= flood, structure=np.ones((3, 3)))
    if n == 0:
        return 0
    pos = np.unique(lab[(lab > 0) & (snr > 0)])
    neg = np.unique(lab[(lab > 0) & (snr < 0)])
    return int(len(np.intersect1d(pos, neg)))


def check_case(c):
    res = Res()
    if c["field"]["noise"] == "white":
        c = dict(c, docov=False)
    elif c["field"]["noise"] == "correlated":
        c = dict(c, docov=True)
    if c["field"]["noise"] != "none" and tuple(c["clip"]) != (5.0, 4.0):
        # a 3-sigma flood level on a noisy image joins the noise into ragged islands with dozens of summits: each takes
        # the optimiser minutes.  Noisy fields therefore use the default clipping levels (runtime, not soundness).
        c = dict(c, clip=(5.0, 4.0))
    if c["field"]["noise"] != "none":
        # runtime only: crowded noisy fields merge into islands with dozens of summits that take the optimiser minutes
        fc = dict(c["field"])
        fc["nsrc"] = min(fc["nsrc"], 10 if fc["layout"] == "random" else 24)
        fc["blend_rate"] = min(fc["blend_rate"], 0.2)
        if fc["noise"] == "white":
            # pixel-scale noise on a broad faint source makes one summit per noise peak (41 components in one island)
            fc["size_max"] = min(fc["size_max"], 1.5)
        c = dict(c, field=fc)
    F = fields.build_field(c["field"])
    img, hdr, shape = F["img"], F["hdr"], F["shape"]
    # known finding K2: an island with pixels of both signs is always treated as a positive island, so its negative part
    # is ignored and negating the image changes which part is catalogued.  Such cases are excluded by construction from the
    # mirror clause (counted), unless the case asks for them explicitly (the known-finding replay does).
    nmixed = mixed_sign_islands(img, c["clip"][1])
    do_mirror = nmixed == 0 or bool(c.get("allow_mixed"))
    if nmixed and not c.get("allow_mixed"):
        res.excluded_known += 1
        res.label("excluded-K2-mixed-sign-island")
    rr, cc = np.indices(shape)
    bkgmap = c["bkglevel"] * (1.0 + 0.3 * np.sin(rr / 40.0) * np.cos(cc / 55.0)) if c["aux"] == "files" else np.full(shape, c["bkglevel"])
    tags = dict(aux=c["aux"], islandflux=c["islandflux"], docov=c["docov"], mixed_sign_island=bool(nmixed))
    d = workdir("c13_")
    try:
        pos, neg = os.path.join(d, "pos.fits"), os.path.join(d, "neg.fits")
        skyimg.write_fits(pos, img + bkgmap, hdr, rep=c.get("rep"))
        skyimg.write_fits(neg, -(img + bkgmap), hdr, rep=c.get("rep"))
        fpos = fneg = None
        if c["aux"] == "files":
            rmsf = os.path.join(d, "rms.fits")
            skyimg.write_fits(rmsf, np.ones(shape), hdr)
            bp, bn = os.path.join(d, "bkg_p.fits"), os.path.join(d, "bkg_n.fits")
            skyimg.write_fits(bp, bkgmap, hdr)
            skyimg.write_fits(bn, -bkgmap, hdr)
            fpos, fneg = (rmsf, bp), (rmsf, bn)
        both = run(pos, c, c["bkglevel"], fpos)
        mirror = run(neg, c, -c["bkglevel"], fneg)
        P = run(pos, c, c["bkglevel"], fpos, nonegative=True)
        N = run(pos, c, c["bkglevel"], fpos, nopositive=True)
        none = run(pos, c, c["bkglevel"], fpos, nopositive=True, nonegative=True)
        # one finder object used for several polarity settings on the same image, in a generated order
        reuse = {}
        if c.get("reuse"):
            sf_ = SourceFinder()
            for name in c["reuse"]:
                reuse[name] = list(run(pos, c, c["bkglevel"], fpos, nopositive=(name == "N"), nonegative=(name == "P"), finder=sf_))
        cli = {}
        if c.get("cli"):
            from vlib.cli import run_aegean
            base = ["--seedclip", c["clip"][0], "--floodclip", c["clip"][1]]
            if not c["docov"]:
                base.append("--nocov")
            if c["islandflux"]:
                base.append("--island")
            if fpos:
                base += ["--noise", fpos[0], "--background", fpos[1]]
            else:
                base += ["--forcerms", 1.0, "--forcebkg", c["bkglevel"]]
            cli["default"] = run_aegean(pos, d, "default", base)
            cli["negative"] = run_aegean(pos, d, "negative", base + ["--negative"])
            cli["nopositive"] = run_aegean(pos, d, "nopositive", base + ["--negative", "--nopositive"])
    finally:
        shutil.rmtree(d, ignore_errors=True)
    what = "%d truth sources, %s, aux=%s bkg=%g islandflux=%s docov=%s" % (len(F["truth"]), c["field"]["noise"], c["aux"],
                                                                           c["bkglevel"], c["islandflux"], c["docov"])
    # ---- sign symmetry
    if not do_mirror:
        pass
    elif len(both) != len(mirror):
        res.bad("mirror-count", "%s: %d rows for the image, %d for the negated image" % (what, len(both), len(mirror)), **tags)
    else:
        # match rows of the same type by nearest sky position (greedy, each row used once)
        A = sorted(both, key=key)
        pool = list(mirror)
        B = []
        for x in A:
            cand = [(float(refs.vsep(x.ra, x.dec, y.ra, y.dec)), k) for k, y in enumerate(pool)
                    if type(y) is type(x) and getattr(y, "source", None) == getattr(x, "source", None)]
            if not cand:
                cand = [(float(refs.vsep(x.ra, x.dec, y.ra, y.dec)), k) for k, y in enumerate(pool)]
            B.append(pool.pop(min(cand)[1]))
        ncomp_isl = {}
        isl_err = {}
        for x in A:
            if isinstance(x, ComponentSource):
                ncomp_isl[x.island] = ncomp_isl.get(x.island, 0) + 1
                for en in ("err_ra", "err_dec", "err_peak_flux", "err_int_flux", "err_a", "err_b", "err_pa"):
                    e = getattr(x, en, None)
                    if e is not None and np.isfinite(e) and e > 0:
                        isl_err[(x.island, en)] = max(isl_err.get((x.island, en), 0.0), float(e))
        for x, y in zip(A, B):
            if isinstance(x, ComponentSource) and isinstance(y, ComponentSource) and ncomp_isl.get(x.island, 0) >= 3:
                # an island fitted with >= 3 components in noise is an over-parameterised problem with several local
                # minima; rounding-level differences between the two polarities select different ones (measured: 11 %
                # in flux, components pinned at their bounds).  Only sign and flags are compared there.
                res.label("multi-summit-island-row(sign/flags only)")
                if not (np.sign(x.peak_flux) == -np.sign(y.peak_flux) and ((x.flags & ~2) == (y.flags & ~2))):
                    res.bad("mirror-multi-summit-row", "%s: row at (%.5f, %.5f): peak %r/%r flags %d/%d" % (
                        what, x.ra, x.dec, x.peak_flux, y.peak_flux, x.flags, y.flags), **tags)
                    break
                continue
            if type(x) is not type(y):
                res.bad("mirror-rows", "%s: row types differ after sorting by position" % what, **tags)
                break
            # The optimiser follows a mirrored but not bit-identical path and stops when chi^2 changes by ~1e-8; along the
            # flat directions of blended or faint fits the two end points differ by up to ~0.15 reported sigma (measured).
            # Tolerance: 0.3 reported sigma per parameter (plus a 1e-6 relative floor); the errors themselves to 25 %.
            # A sign-handling error shifts parameters by >= 1 sigma or changes counts/flags.
            def tol(err, scale):
                e = float(err) if err is not None and np.isfinite(err) and err > 0 else 0.0
                return 0.3 * e + 1e-6 * abs(scale) + 1e-12
            if isinstance(x, ComponentSource):
                def good(e):
                    return e is not None and np.isfinite(e) and e > 0
                degenerate = not all(good(getattr(r_, n)) for r_ in (x, y) for n in ("err_ra", "err_dec", "err_peak_flux"))
                degenerate = degenerate or any(r_.err_peak_flux > abs(r_.peak_flux) for r_ in (x, y))
                if degenerate:
                    # a fit without a usable covariance (e.g. a 1-D island of 3 pixels next to a blank block): the position
                    # across the row is undetermined and the optimiser's end point is arbitrary.  Only sign and flags are
                    # compared for such rows (whether their error columns are well formed is C03's subject).
                    res.label("degenerate-fit-row")
                    if not (np.sign(x.peak_flux) == -np.sign(y.peak_flux) and ((x.flags & ~2) == (y.flags & ~2))):
                        res.bad("mirror-degenerate-row", "%s: degenerate row at (%.5f, %.5f): peak %r/%r flags %d/%d" % (
                            what, x.ra, x.dec, x.peak_flux, y.peak_flux, x.flags, y.flags), **tags)
                        break
                    continue
            # The components of a jointly fitted island are correlated: the flat direction along which the two polarities'
            # end points differ mixes them, so its extent in one component's parameter is set by the least constrained
            # component.  Tolerances of a 2-component island therefore use the island's largest reported error of that
            # parameter (seen: 0.74 of a component's own sigma next to a companion with a 20 % flux error).
            def E(en, x=x):
                own = getattr(x, en, -1)
                if isinstance(x, ComponentSource) and ncomp_isl.get(x.island, 0) >= 2 and (x.island, en) in isl_err:
                    return isl_err[(x.island, en)]
                return own
            if isinstance(x, ComponentSource) and ncomp_isl.get(x.island, 0) >= 2:
                res.label("joint-fit-row(island-wide error)")
            dpos = float(refs.vsep(x.ra, x.dec, y.ra, y.dec))
            epos = math.hypot(E("err_ra") if E("err_ra") > 0 else 0, E("err_dec") if E("err_dec") > 0 else 0)
            if not dpos <= 0.3 * epos + 1e-7:
                res.bad("mirror-position", "%s: a source moves by %.3g deg (%.3g reported sigma) when the image is negated" % (
                    what, dpos, dpos / epos if epos else float("inf")), **tags)
                break
            epk = E("err_peak_flux")
            eint = E("err_int_flux")
            if not (abs(x.peak_flux + y.peak_flux) <= tol(epk, x.peak_flux) and
                    (not (np.isfinite(x.int_flux) and np.isfinite(y.int_flux)) or
                     abs(x.int_flux + y.int_flux) <= tol(eint, x.int_flux) + 3e-5 * abs(x.int_flux))):
                res.bad("mirror-flux", "%s: peak/int %r/%r become %r/%r" % (what, x.peak_flux, x.int_flux, y.peak_flux, y.int_flux), **tags)
                break
            if x.flags != y.flags:
                res.bad("mirror-flags", "%s: flags %d become %d at (%.5f, %.5f)" % (what, x.flags, y.flags, x.ra, x.dec), **tags)
                break
            if isinstance(x, ComponentSource):
                badf = []
                for n, en in (("a", "err_a"), ("b", "err_b")):
                    if not abs(getattr(x, n) - getattr(y, n)) <= tol(E(en), getattr(x, n)) + 1e-5 * abs(getattr(x, n)):
                        badf.append(n)
                dpa = abs(float(refs.angdiff(x.pa, y.pa, 180.0)))
                # for a (nearly) round fit the position angle is not part of the shape: turning an ellipse by d moves its
                # outline by at most (a - b) |sin d|, which is held to the tolerance of the axis lengths
                outline = abs(x.a - x.b) * abs(math.sin(math.radians(dpa)))
                if not (dpa <= tol(E("err_pa"), 1.0) + 1e-4 or outline <= tol(E("err_a"), x.a) + 1e-5 * abs(x.a)):
                    badf.append("pa")
                for n in ("err_ra", "err_dec", "err_peak_flux", "err_a", "err_b", "err_pa", "err_int_flux", "local_rms", "psf_a", "psf_b"):
                    round_fit = abs(x.a - x.b) <= tol(E("err_a"), x.a) + 1e-5 * abs(x.a)
                    if n == "err_pa" and ((x.err_pa > 10 and y.err_pa > 10) or round_fit):
                        continue       # the position angle is undefined (round fit, a = b within its error): its error is ill-conditioned
                    if not close(float(getattr(x, n)), float(getattr(y, n)), 0.25 if n.startswith("err_") else 1e-6, 1e-12):
                        badf.append(n)
                if badf:
                    n = badf[0]
                    res.bad("mirror-shape-or-error", "%s: %s is %r for the image and %r for the negated image" % (
                        what, n, getattr(x, n), getattr(y, n)), field=n, **tags)
                    break
            elif isinstance(x, IslandSource):
                if not (x.pixels == y.pixels and x.components == y.components):
                    res.bad("mirror-island", "%s: island row pixels/components %r/%r become %r/%r" % (
                        what, x.pixels, x.components, y.pixels, y.components), **tags)
                    break
    # ---- polarity filters
    compsP = [s for s in P if isinstance(s, ComponentSource)]
    compsN = [s for s in N if isinstance(s, ComponentSource)]
    if any(not s.peak_flux > 0 for s in compsP):
        res.bad("positive-only-has-negative", "%s: the positive-only catalogue contains a component with peak %r" % (
            what, [s.peak_flux for s in compsP if not s.peak_flux > 0][0]), **tags)
    if any(not s.peak_flux < 0 for s in compsN):
        res.bad("negative-only-has-positive", "%s: the negative-only catalogue contains a component with peak %r" % (
            what, [s.peak_flux for s in compsN if not s.peak_flux < 0][0]), **tags)
    tb = sorted(rowtuple(s) for s in both if isinstance(s, ComponentSource))
    tp = sorted(rowtuple(s) for s in compsP)
    tn = sorted(rowtuple(s) for s in compsN)
    if set(tp) & set(tn):
        res.bad("filters-overlap", "%s: a component is in both the positive-only and the negative-only catalogue" % what, **tags)
    if sorted(tp + tn) != tb:
        res.bad("filters-union", "%s: positive-only (%d) + negative-only (%d) components != both polarities (%d)" % (
            what, len(tp), len(tn), len(tb)), **tags)
    if any(isinstance(s, ComponentSource) for s in none):
        res.bad("both-filters-not-empty", "%s: nopositive and nonegative together still return components" % what, **tags)
    for name, got in reuse.items():
        want = {"P": tp, "N": tn, "B": tb}[name]
        if sorted(rowtuple(s_) for s_ in got if isinstance(s_, ComponentSource)) != want:
            res.bad("filters-reused-finder", "%s: one SourceFinder used for the settings %r in that order: the %s catalogue has %d "
                    "components, a fresh finder gives %d" % (what, list(c["reuse"]), {"P": "positive-only", "N": "negative-only",
                                                                                   "B": "both-polarities"}[name],
                                                             sum(1 for s_ in got if isinstance(s_, ComponentSource)), len(want)), **tags)
            break
    if reuse:
        res.label("reused-finder")
    # ---- the command line: no flag = positive only, --negative = both, --negative --nopositive = negative only
    if cli:
        for name, want in (("default", tp), ("negative", tb), ("nopositive", tn)):
            rc, rows = cli[name]
            got = sorted(rowtuple(s) for s in rows)
            # tables carry numpy scalars: compare numerically
            def norm(t):
                return tuple(("nan" if isinstance(v, float) and math.isnan(v) else float(v)) if isinstance(v, (int, float, np.integer, np.floating))
                             else str(v) for v in t)
            if rc not in (0, None) or sorted(norm(t) for t in got) != sorted(norm(t) for t in want):
                res.bad("cli-polarity", "%s: `aegean %s` returned rc=%r and %d components, the API gives %d for that polarity" % (
                    what, {"default": "(no polarity flag)", "negative": "--negative", "nopositive": "--negative --nopositive"}[name],
                    rc, len(got), len(want)), **tags)
                break
        res.label("cli")
    comps = [s for s in both if isinstance(s, ComponentSource)]
    npos = sum(1 for s in comps if s.peak_flux > 0)
    nneg = sum(1 for s in comps if s.peak_flux < 0)
    multi = len(set(s.island for s in comps)) < len(comps)
    res.nontrivial = bool(npos and nneg and multi)
    res.label("aux-" + c["aux"], "noise-" + c["field"]["noise"])
    if c["islandflux"]:
        res.label("islandflux")
    res.stat("components", len(comps))
    return res


TESTS = {
    "symmetry": {"strategy": lambda tier: case_strategy, "check": check_case,
                 "n": {"quick": 64, "thorough": 2000}},
}
