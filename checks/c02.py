"""C02 - islands are exactly the seeded, flood-thresholded 8-connected pixel groups (source_finder.find_islands)"""
import math

import numpy as np
from hypothesis import strategies as st

from AegeanTools.source_finder import find_islands
from vlib import refs
from vlib.core import Res, workdir

PROP = "C02"
SHARDS = {"quick": 8, "thorough": 16}
RULE = ("Hypothesis: images 1x1..24x24 written as a fill level plus a sparse list of (row, col, level, sign) cells and "
        "template stamps (diagonal chain, ring around a bright pixel, L, U, faint shape next to a bright pixel), levels from "
        "an SNR alphabet {NaN, 0, flood-eps, flood, (flood+seed)/2, seed, seed+eps, 3*seed} with dyadic thresholds so that "
        "ties are exact; im = bkg + sign*level*rms with bkg in {0, const, -flood*rms, -mid*rms (gives pixel values of exactly "
        "0.0), ramp} and rms in {1, 2, 0.5, smooth positive map}. Oracle: pure-Python 8-connected flood fill on the same "
        "IEEE expression abs(im-bkg)/rms. Non-trivial = >= 2 oracle groups with >= 1 rejected by the seed rule, or a pixel "
        "exactly at a threshold, or two groups with intersecting bounding boxes; distinct = distinct image/threshold case. "
        "'e2e': messy 128 px fields (vlib/fields.py) run through the blind finder; every component must carry the number of a "
        "seeded group (raster order) and lie within the fit's position bound of that group's bounding box.")
ASSUMPTIONS = ["rms > 0 everywhere; 0 < flood <= seed", "images up to 24x24 (the rule is local)",
               "end-to-end clause: a component belongs to island k of the raster-ordered seeded groups and lies within half a beam "
               "diagonal (+1 px) of that group's bounding box (the fit's documented position bound)"]
CASE_TIMEOUT_S = 300

EPS = 2.0 ** -10
THRESH = [(4.0, 5.0), (3.0, 6.0), (10.0, 10.0), (4.5, 4.5), (2.25, 7.5), (4.0, 4.0 + EPS)]
NLEVEL = 8


def levels(flood, seed):
    return [float("nan"), 0.0, flood - EPS, flood, (flood + seed) / 2.0, seed, seed + EPS, 3 * seed]


STAMPS = {
    # (dr, dc, level index)
    "diag": [(0, 0, 6), (1, 1, 3), (2, 2, 3), (3, 3, 4)],
    "antidiag": [(0, 3, 3), (1, 2, 3), (2, 1, 6), (3, 0, 3)],
    "ring": [(0, 0, 3), (0, 1, 3), (0, 2, 3), (1, 0, 3), (1, 2, 3), (2, 0, 3), (2, 1, 3), (2, 2, 3), (1, 1, 7)],
    "ring_gap": [(0, 0, 3), (0, 1, 3), (0, 2, 3), (0, 3, 3), (0, 4, 3), (1, 0, 3), (1, 4, 3), (2, 0, 3), (2, 4, 3),
                 (3, 0, 3), (3, 4, 3), (4, 0, 3), (4, 1, 3), (4, 2, 3), (4, 3, 3), (4, 4, 3), (2, 2, 7)],
    "L_faint_with_bright_inside_box": [(0, 0, 4), (1, 0, 4), (2, 0, 4), (2, 1, 4), (2, 2, 4), (0, 2, 7)],
    "U": [(0, 0, 6), (1, 0, 3), (2, 0, 3), (2, 1, 3), (2, 2, 3), (1, 2, 3), (0, 2, 3)],
    "seed_tie": [(0, 0, 5), (0, 1, 3), (1, 0, 3)],
    "flood_tie_bridge": [(0, 0, 6), (0, 1, 2), (0, 2, 6)],
    "zero_edge": [(0, 0, 4), (0, 1, 6), (0, 2, 4)],
}

cell = st.tuples(st.integers(0, 23), st.integers(0, 23), st.integers(0, NLEVEL - 1), st.booleans())
stamp = st.tuples(st.sampled_from(sorted(STAMPS)), st.integers(0, 23), st.integers(0, 23), st.booleans())

case_strategy = st.fixed_dictionaries({
    "shape": st.tuples(st.integers(1, 24), st.integers(1, 24)),
    "thresh": st.integers(0, len(THRESH) - 1),
    "fill": st.sampled_from([1, 1, 1, 2, 0, 3]),
    "cells": st.lists(cell, max_size=60),
    "stamps": st.lists(stamp, max_size=5),
    "bkg": st.sampled_from(["zero", "const", "minus_flood", "minus_mid", "ramp"]),
    "rms": st.sampled_from(["one", "two", "half", "map"]),
    "dense_seed": st.one_of(st.none(), st.none(), st.integers(0, 2 ** 31 - 1)),
    "seed2": st.integers(0, 3),
})


def build(c):
    nr, nc = c["shape"]
    flood, seed = THRESH[c["thresh"]]
    lv = levels(flood, seed)
    idx = np.full((nr, nc), c["fill"], dtype=int)
    sign = np.ones((nr, nc))
    if c["dense_seed"] is not None:
        rng = np.random.default_rng(c["dense_seed"])
        idx = rng.choice(NLEVEL, size=(nr, nc), p=[0.05, 0.15, 0.3, 0.2, 0.1, 0.08, 0.07, 0.05])
        sign = rng.choice([1.0, -1.0], size=(nr, nc))
    for name, r0, c0, neg in c["stamps"]:
        for dr, dc, li in STAMPS[name]:
            r, cc = r0 % nr + dr, c0 % nc + dc
            if r < nr and cc < nc:
                idx[r, cc] = li
                sign[r, cc] = -1.0 if neg else 1.0
    for r, cc, li, neg in c["cells"]:
        if r < nr and cc < nc:
            idx[r, cc] = li
            sign[r, cc] = -1.0 if neg else 1.0
    level = np.array(lv)[idx]
    rr, cc_ = np.indices((nr, nc))
    rms = {"one": np.ones((nr, nc)), "two": np.full((nr, nc), 2.0), "half": np.full((nr, nc), 0.5),
           "map": 1.0 + 0.25 * np.sin(rr / 3.0) ** 2 + 0.125 * cc_ / max(nc, 1)}[c["rms"]]
    mid = (flood + seed) / 2.0
    bkg = {"zero": np.zeros((nr, nc)), "const": np.full((nr, nc), 10.0), "minus_flood": -flood * rms,
           "minus_mid": -mid * rms, "ramp": (rr * 2.0 + cc_ * 0.5)}[c["bkg"]]
    im = bkg + sign * level * rms
    return im, bkg, rms, flood, seed


def decode(islands, shape, res, tag):
    out = []
    for k, isl in enumerate(islands):
        bb = np.asarray(isl.bounding_box)
        (r0, r1), (c0, c1) = (int(bb[0][0]), int(bb[0][1])), (int(bb[1][0]), int(bb[1][1]))
        m = np.asarray(isl.mask)
        if m.shape != (r1 - r0, c1 - c0) or not (0 <= r0 < r1 <= shape[0] and 0 <= c0 < c1 <= shape[1]):
            res.bad("mask-box-mismatch", "%s: island %d has bounding_box %r but mask shape %r (image %r)" % (
                tag, k, bb.tolist(), m.shape, shape))
            out.append(None)
            continue
        rr, cc = np.where(~m.astype(bool))
        out.append(frozenset(zip((rr + r0).tolist(), (cc + c0).tolist())))
    return out


def check_case(c):
    res = Res()
    im, bkg, rms, flood, seed = build(c)
    snr = abs(im - bkg) / rms
    kept, rejected = refs.bfs_islands(snr, flood, seed)
    islands = find_islands(im.copy(), bkg.copy(), rms.copy(), seed_clip=seed, flood_clip=flood)
    got = decode(islands, im.shape, res, "seed=%g flood=%g" % (seed, flood))
    if res.violations:
        return finish(res, c, snr, kept, rejected, flood, seed)
    want = set(kept)
    gset = set(got)
    if len(gset) != len(got):
        res.bad("duplicate-island", "the same pixel group is returned twice")
    for g in gset - want:
        if g in set(rejected):
            why = "a group without an own pixel above the seed threshold is returned"
            res.bad("extra-island", "%s: %r" % (why, sorted(g)[:6]), kind="unseeded")
        else:
            res.bad("extra-island", "returned island is not an oracle group: %r" % (sorted(g)[:8],), kind="other")
    for g in want - gset:
        res.bad("missing-island", "seeded group not returned: %r" % (sorted(g)[:8],))
    # disjoint, no blank pixel, tight box
    seen = set()
    for g, isl in zip(got, islands):
        if g & seen:
            res.bad("overlap", "islands share pixels %r" % (sorted(g & seen)[:4],))
        seen |= g
        if any(not np.isfinite(im[p]) for p in g):
            res.bad("blank-in-island", "a blank pixel belongs to an island")
        if g:
            rs = [p[0] for p in g]
            cs = [p[1] for p in g]
            bb = np.asarray(isl.bounding_box).tolist()
            if bb != [[min(rs), max(rs) + 1], [min(cs), max(cs) + 1]]:
                res.bad("box-not-tight", "bounding_box %r, tight box of its pixels %r" % (
                    bb, [[min(rs), max(rs) + 1], [min(cs), max(cs) + 1]]))
    # metamorphic: raising the seed can only remove islands
    seed2 = seed + [EPS, 1.0, (3 * seed - seed) / 2, 2 * seed + EPS][c["seed2"]]
    isl2 = find_islands(im.copy(), bkg.copy(), rms.copy(), seed_clip=seed2, flood_clip=flood)
    got2 = decode(isl2, im.shape, res, "seed=%g flood=%g" % (seed2, flood))
    if None not in got2:
        extra = set(got2) - gset
        if extra:
            res.bad("seed-monotone", "raising seed %g -> %g added island(s) %r" % (seed, seed2, sorted(list(extra)[0])[:6]))
        want2 = set(refs.bfs_islands(snr, flood, seed2)[0])
        if set(got2) != want2:
            res.bad("islands-at-higher-seed", "seed=%g: returned %d islands, oracle %d" % (seed2, len(set(got2)), len(want2)))
    return finish(res, c, snr, kept, rejected, flood, seed)


def finish(res, c, snr, kept, rejected, flood, seed):
    fin = snr[np.isfinite(snr)]
    tie = bool(np.any(fin == flood) or np.any(fin == seed))

    def box(g):
        rs = [p[0] for p in g]
        cs = [p[1] for p in g]
        return min(rs), max(rs), min(cs), max(cs)
    shared = False
    allg = kept + rejected
    boxes = [box(g) for g in allg]
    for i in range(len(boxes)):
        for j in range(i + 1, len(boxes)):
            a, b = boxes[i], boxes[j]
            if a[0] <= b[1] and b[0] <= a[1] and a[2] <= b[3] and b[2] <= a[3]:
                shared = True
                break
        if shared:
            break
    res.nontrivial = bool((len(allg) >= 2 and rejected) or tie or shared)
    if tie:
        res.label("threshold-tie")
    if shared:
        res.label("intersecting-boxes")
    if rejected and kept:
        res.label("kept-and-rejected")
    if not np.all(np.isfinite(snr)):
        res.label("has-nan")
    return res


# ------------------------------------------------------------------- end to end
def check_e2e(c):
    """no reported component originates from a pixel group that fails the rule: every component of a blind run carries
    the number of a seeded, flood-thresholded group and lies on (or within a beam of) that group's bounding box"""
    import os
    import shutil
    import tempfile
    from AegeanTools.models import ComponentSource
    from AegeanTools.source_finder import SourceFinder
    from vlib import fields, skyimg
    res = Res()
    fc = dict(c["field"], rows=min(c["field"]["rows"], 128), cols=min(c["field"]["cols"], 128), nsrc=min(c["field"]["nsrc"], 12),
              size_max=min(c["field"]["size_max"], 1.5))
    F = fields.build_field(fc)
    seed, flood = c["clip"]
    snr = np.abs(F["img"]) / 1.0
    kept, rejected = refs.bfs_islands(snr, flood, seed)
    kept = sorted(kept, key=lambda g: min(g))
    d = workdir("c02e_")
    try:
        path = os.path.join(d, "im.fits")
        skyimg.write_fits(path, F["img"], F["hdr"], rep=c.get("rep"))
        out = SourceFinder().find_sources_in_image(path, rms=1.0, bkg=0.0, innerclip=seed, outerclip=flood, docov=False, cores=1,
                                                     **skyimg.cube_kw(c.get("rep")))
    finally:
        shutil.rmtree(d, ignore_errors=True)
    comps = [s for s in out if isinstance(s, ComponentSource)]
    beam_px = fc["beam"][0] * fc["beam"][1]
    for s in comps:
        k = int(s.island) - 1
        if not (0 <= k < len(kept)):
            res.bad("component-without-island", "component (%d,%d) carries an island number but only %d seeded groups exist" % (
                s.island, s.source, len(kept)))
            break
        if not np.isfinite(s.ra):
            continue
        p1, p2 = F["w"].sky2pix(s.ra, s.dec)
        r, cc = float(p2) - 1, float(p1) - 1
        rs = [p[0] for p in kept[k]]
        cs = [p[1] for p in kept[k]]
        m = 0.5 * math.hypot(beam_px, fc["beam"][0]) + 1.0       # the documented position bound: half the beam diagonal
        if not (min(rs) - m <= r <= max(rs) + m and min(cs) - m <= cc <= max(cs) + m):
            res.bad("component-outside-its-island", "component (%d,%d) at pixel (%.1f, %.1f) is not on island %d (rows %d..%d, "
                    "cols %d..%d)" % (s.island, s.source, r, cc, s.island, min(rs), max(rs), min(cs), max(cs)))
            break
    if len(set(int(s.island) for s in comps)) > len(kept):
        res.bad("more-islands-than-groups", "%d islands have components, %d seeded groups exist" % (
            len(set(int(s.island) for s in comps)), len(kept)))
    res.nontrivial = bool(len(kept) >= 2 and rejected)
    res.label("e2e")
    return res


def e2e_strategy():
    from vlib import fields, skyimg
    return st.fixed_dictionaries({"rep": skyimg.rep_strategy_exact, "field": fields.field_strategy, "clip": st.sampled_from([(5.0, 4.0), (6.0, 3.0), (10.0, 10.0)])})


TESTS = {
    "e2e": {"strategy": lambda tier: e2e_strategy(), "check": check_e2e, "n": {"quick": 48, "thorough": 1500}},
    "islands": {"strategy": lambda tier: case_strategy, "check": check_case,
                "n": {"quick": 6000, "thorough": 200000}},
}
