"""C07 - BANE always terminates, is schedule-independent and fails cleanly (BANE.filter_mc_sharemem / sigma_filter)"""
import json
import math
import os
import shutil
import signal
import subprocess
import sys
import tempfile
import time

import numpy as np
from hypothesis import strategies as st

from vlib.core import REPO, ROOT, HarnessError, Res

PROP = "C07"
SHARDS = {"quick": 12, "thorough": 16}
TIME_LIMIT = {"quick": 2400, "thorough": 8 * 3600}
RULE = ("Hypothesis: layouts (rows 8..96, cols 16..40, grid 2..8, box >= max(4, grid), cores 1..6, stripes 1..12) incl. "
        "stripes > cores and rows just above k*width so that the realised stripe count exceeds the request; schedules = for "
        "each of the two synchronisation points a generated permutation of the stripes giving their arrival order (50 ms "
        "steps, enforced by a barrier proxy inherited through fork) plus one party delayed after being released; faults = one "
        "stripe raising at one of {start of pass 1, arriving at / released from sync 0, arriving at / released from sync 1}. "
        "Each case runs BANE in a child process in its own session under a watchdog. Oracles: returns; every pixel written "
        "(image = noise + DC 1000 sigma, so an unwritten zero-filled row is visible); no /dev/shm/ibkg_*|irms_* of the call "
        "left; maps bit-identical to the unperturbed cores=stripes run of the same layout; |delta| <= 0.25 sigma between "
        "stripe counts; a fault raises within the watchdog, names the injected error and leaves no segment. A time-out is a "
        "violation only with a structural diagnosis from the event log (all live workers blocked at a barrier, no event for "
        "> 5 s, and no further arrival possible). Non-trivial = stripes >= 2 and (non-identity arrival order, or a fault, or "
        "cores != stripes); distinct = distinct plan.")
ASSUMPTIONS = [
    "stripe-count clause: stationary noise plus a DC offset and a gentle gradient (<= 5 sigma across the image); a box that is "
    "clipped by one row more or less at a stripe edge shifts the local mean by half the per-row gradient, so the clause can "
    "only be asserted for gradients that are small per row compared with the noise",
    "the harness owns the order in which stripes reach and leave each synchronisation point; preemption inside numpy calls "
    "and kernel scheduling are not controlled",
    "faults are Python exceptions raised in a worker (a worker killed by a signal is outside the fault model)",
    "a time-out without the structural deadlock diagnosis is inconclusive (harness error), never a violation",
]
CHILD = os.path.join(ROOT, "vlib", "bane_child.py")
WATCHDOG = 45.0
f = st.floats


# --------------------------------------------------------------- running a plan
def realised_ymins(rows, stripes, cores, grid):
    ns = stripes
    if ns is None or cores == 1:
        ns = cores
    if ns > 1:
        width = int(max(rows / ns / grid, 1) * grid)
        return list(range(0, rows, width))
    return [0]


def parse_events(path):
    ev = []
    if os.path.exists(path):
        for ln in open(path):
            parts = ln.strip().split(" ", 2)
            if len(parts) == 3:
                ev.append((float(parts[0]), parts[1], parts[2]))
    return ev


def shm_names(events):
    mems = set()
    for _, _, e in events:
        if e.startswith("worker_init mem="):
            mems.add(e.split("mem=")[1].split()[0])
    names = []
    for m in mems:
        names += ["ibkg_" + m, "irms_" + m]
    return names


def run_plan(plan, watchdog=WATCHDOG):
    out = tempfile.mkdtemp(prefix="c07_")
    try:
        pp = os.path.join(out, "plan.json")
        json.dump(plan, open(pp, "w"))
        env = dict(os.environ, VERIF_REPO=REPO)
        t0 = time.time()
        p = subprocess.Popen([sys.executable, CHILD, pp, out], env=env, stdout=subprocess.DEVNULL,
                             stderr=subprocess.DEVNULL, start_new_session=True)
        total_delay = sum(sum(v) for d in plan.get("delays", {}).values() for v in d.values())
        limit = watchdog + total_delay
        try:
            p.wait(timeout=limit)
            timed_out = False
        except subprocess.TimeoutExpired:
            timed_out = True
        wall = time.time() - t0
        # always clear the whole session (pool workers, resource tracker)
        try:
            os.killpg(p.pid, signal.SIGKILL)
        except OSError:
            pass
        try:
            p.wait(timeout=10)
        except subprocess.TimeoutExpired:
            pass
        events = parse_events(os.path.join(out, "events.log"))
        r = {"timed_out": timed_out, "wall": wall, "events": events, "limit": limit}
        rp = os.path.join(out, "result.json")
        if os.path.exists(rp):
            r.update(json.load(open(rp)))
        if r.get("harness_error"):
            raise HarnessError("bane_child failed: " + r["harness_error"])
        if r.get("ok"):
            r["bkg"] = np.load(os.path.join(out, "bkg.npy"))
            r["rms"] = np.load(os.path.join(out, "rms.npy"))
        left = [n for n in shm_names(events) if os.path.exists(os.path.join("/dev/shm", n))]
        r["shm_left"] = left
        for n in left:
            try:
                os.remove(os.path.join("/dev/shm", n))
            except OSError:
                pass
        return r
    finally:
        shutil.rmtree(out, ignore_errors=True)


def diagnose_deadlock(r, plan):
    """structural diagnosis of a time-out from the event log; returns text or None"""
    ev = r["events"]
    if not ev:
        return None
    last_t = max(t for t, _, _ in ev)
    if r["wall"] - last_t < 5.0:
        return None                           # still making progress when killed: inconclusive
    ymins = realised_ymins(plan["image"]["rows"], plan["stripes"], plan["cores"], plan["grid"])
    n = len(ymins)
    state = {}
    for t, s, e in ev:
        if s == "-":
            continue
        st_ = state.setdefault(int(s), {"started": False, "waiting": None, "done": False, "raised": False})
        if e.startswith("task_start"):
            st_["started"] = True
        elif e.startswith("arrive"):
            st_["waiting"] = int(e[len("arrive")])
        elif e.startswith("release"):
            st_["waiting"] = None
        elif e.startswith("done"):
            st_["done"] = True
        elif e.startswith("raised"):
            st_["raised"] = True
    waiting = sorted(s for s, v in state.items() if v["waiting"] is not None and not v["done"] and not v["raised"])
    live_not_waiting = [s for s, v in state.items() if v["started"] and not v["done"] and not v["raised"] and v["waiting"] is None]
    unstarted = [s for s in range(n) if s not in state or not state[s]["started"]]
    gone = sorted(s for s, v in state.items() if v["done"] or v["raised"])
    resets = sum(1 for _, _, e in ev if e == "reset")
    if not waiting or live_not_waiting:
        return None
    why = []
    if unstarted:
        why.append("%d of %d stripes never started because all %d pool workers are blocked at the barrier (parties=%d > "
                   "pool size)" % (len(unstarted), n, plan["cores"], n))
    if gone:
        why.append("stripe(s) %r have left (finished or raised) while %r wait at a barrier for them" % (gone, waiting))
    if resets and not why:
        why.append("after barrier.reset() stripes %r wait at sync %r and no other live party can arrive" % (
            waiting, sorted(set(state[s]["waiting"] for s in waiting))))
    if not why:
        why.append("stripes %r wait at sync %r; every live worker is blocked" % (
            waiting, sorted(set(state[s]["waiting"] for s in waiting))))
    return "; ".join(why) + " [no event for %.0f s]" % (r["wall"] - last_t)


def realised_order_ok(r, plan):
    """did the stripes arrive at each sync point in the planned order?"""
    for k, d in plan.get("delays", {}).items():
        want = [int(s) for s, v in sorted(d.items(), key=lambda kv: kv[1][0]) if True]
        got = [int(s) for t, s, e in r["events"] if e == "arrive%s" % k and s != "-"]
        pres = {int(s): v[0] for s, v in d.items()}
        # only compare stripes whose planned arrival times differ
        for a, b in zip(got, got[1:]):
            if pres.get(a, 0) > pres.get(b, 0) + 1e-9:
                return False
    return True


# --------------------------------------------------------------------- strategies
def layout():
    return st.fixed_dictionaries({
        "rows": st.integers(8, 96), "cols": st.integers(16, 40),
        "grid": st.integers(2, 8), "boxmul": st.integers(1, 6),
        "cores": st.integers(1, 6), "stripes": st.one_of(st.none(), st.integers(1, 12)),
        "seed": st.integers(0, 2 ** 31 - 1), "mask": st.sampled_from([True, True, False]),
        "edge": st.sampled_from([None, None, 1, 2]),      # rows = k*width + edge: realised count exceeds the request
    })


def concretise(l):
    grid = l["grid"]
    box = max(4, grid * l["boxmul"])
    rows = l["rows"]
    cores, stripes = l["cores"], l["stripes"]
    if l["edge"] is not None:
        ns = stripes if (stripes is not None and cores > 1) else cores
        if ns > 1:
            k = max(1, rows // (ns * grid))
            rows = max(8, min(120, ns * grid * k + l["edge"]))
    return {"image": {"rows": rows, "cols": l["cols"], "seed": l["seed"], "dc": 1000.0, "sigma": 1.0,
                      "gradient": 5.0, "nan_blocks": [[2, 4, 3, 6]] if l["mask"] and rows > 10 else []},
            "grid": grid, "box": box, "cores": cores, "stripes": stripes, "mask": l["mask"]}


schedule_case = st.fixed_dictionaries({
    "layout": layout(),
    "orders": st.lists(st.lists(st.integers(0, 1000), min_size=12, max_size=12), min_size=2, max_size=2),
    "late": st.one_of(st.none(), st.tuples(st.integers(0, 1), st.integers(0, 11))),
    "cores2": st.integers(1, 8),
})

fault_case = st.fixed_dictionaries({
    "layout": layout(),
    "stripe": st.integers(0, 11),
    "phase": st.sampled_from(["start", "arrive0", "release0", "arrive1", "release1"]),
})

stripes_case = st.fixed_dictionaries({
    "rows": st.integers(96, 160), "cols": st.integers(64, 96), "grid": st.sampled_from([4, 8]),
    "box": st.sampled_from([48, 56]), "stripes": st.integers(2, 6), "seed": st.integers(0, 2 ** 31 - 1),
    "dc": st.sampled_from([0.0, 1000.0, -5000.0]), "gradient": st.sampled_from([0.0, 5.0]),
})


def check_written(r, plan, res, tag):
    bkg, rms = r["bkg"], r["rms"]
    img_rows, img_cols = plan["image"]["rows"], plan["image"]["cols"]
    if bkg.shape != (img_rows, img_cols) or rms.shape != (img_rows, img_cols):
        res.bad("shape", "%s: maps have shape %r for a %r image" % (tag, bkg.shape, (img_rows, img_cols)))
        return
    blank = np.zeros((img_rows, img_cols), dtype=bool)
    for (r0, r1, c0, c1) in plan["image"].get("nan_blocks", []):
        blank[r0:r1, c0:c1] = True
    ok = np.isfinite(bkg) & (np.abs(bkg - plan["image"]["dc"]) < 100)
    unwritten = ~ok & ~blank
    if unwritten.any():
        rows = sorted(set(np.where(unwritten)[0].tolist()))
        res.bad("unwritten-pixels", "%s: background is not ~%g in rows %r (value %r): rows not written?" % (
            tag, plan["image"]["dc"], rows[:6], float(bkg[unwritten][0])))


def describe(plan):
    ymins = realised_ymins(plan["image"]["rows"], plan["stripes"], plan["cores"], plan["grid"])
    return "rows=%d grid=%d box=%d cores=%s stripes=%s (realised %d)" % (
        plan["image"]["rows"], plan["grid"], plan["box"], plan["cores"], plan["stripes"], len(ymins))


def run_expect_ok(plan, res, tag, **tags):
    r = run_plan(plan)
    n = len(realised_ymins(plan["image"]["rows"], plan["stripes"], plan["cores"], plan["grid"]))
    tags = dict(tags, stripes_gt_cores=bool(n > plan["cores"]))
    if r["timed_out"]:
        why = diagnose_deadlock(r, plan)
        if why is None:
            raise HarnessError("BANE run timed out after %.0f s without a structural deadlock diagnosis (%s)" % (
                r["wall"], describe(plan)))
        res.bad("terminates", "%s: %s never returned: %s" % (tag, describe(plan), why), **tags)
        return None
    if not r.get("ok"):
        res.bad("unexpected-exception", "%s: %s raised %s" % (tag, describe(plan), r.get("exception", "?")[-300:]), **tags)
        return None
    if r["shm_left"]:
        res.bad("shm-left", "%s: shared memory left behind: %r" % (tag, r["shm_left"]), **tags)
    check_written(r, plan, res, tag)
    return r


def maps_equal(a, b):
    return a.shape == b.shape and np.array_equal(a, b, equal_nan=True)


def check_schedule(c):
    res = Res()
    plan = concretise(c["layout"])
    ymins = realised_ymins(plan["image"]["rows"], plan["stripes"], plan["cores"], plan["grid"])
    n = len(ymins)
    res.label("realised-%s-request" % ("gt" if plan["cores"] > 1 and n > (plan["stripes"] or plan["cores"]) else "le"))
    # baseline: unperturbed, one worker per stripe, same realised layout (the layout depends only on rows, grid and the
    # effective stripe request, which is `stripes` when cores > 1 and `cores` otherwise)
    eff = plan["stripes"] if (plan["stripes"] is not None and plan["cores"] > 1) else plan["cores"]
    if n > 1:
        base_plan = dict(plan, cores=max(n, 2), stripes=eff)
        assert len(realised_ymins(plan["image"]["rows"], base_plan["stripes"], base_plan["cores"], plan["grid"])) == n
    else:
        base_plan = dict(plan)
    base = run_expect_ok(base_plan, res, "baseline")
    if base is None:
        return finish(res, plan, n, False, False)
    # perturbed schedule
    delays = {}
    nonid = False
    if n > 1:
        for k in (0, 1):
            keys = c["orders"][k]
            order = sorted(range(n), key=lambda i: (keys[i % len(keys)], i))
            if order != list(range(n)):
                nonid = True
            delays[str(k)] = {str(s): [0.05 * rank, 0.0] for rank, s in enumerate(order)}
        if c["late"] is not None:
            k, s = c["late"]
            delays[str(k)][str(s % n)][1] = 0.15
    p2 = dict(plan, delays=delays)
    r = run_expect_ok(p2, res, "scheduled run")
    if r is not None:
        if not realised_order_ok(r, p2):
            res.ambiguous += 1
            res.label("realised-order-differs")
        if not (maps_equal(r["bkg"], base["bkg"]) and maps_equal(r["rms"], base["rms"])):
            d = float(np.nanmax(np.abs(r["rms"] - base["rms"]))) if r["rms"].shape == base["rms"].shape else float("nan")
            res.bad("not-bit-identical", "%s: maps differ from the unperturbed run under arrival orders %r (max |d rms| = %g)" % (
                describe(plan), {k: sorted(v, key=lambda s: v[s][0]) for k, v in delays.items()}, d))
    # another worker count for the same layout (only when that keeps the layout: cores > 1 and explicit stripes)
    diffcores = False
    if n > 1 and c["cores2"] > 1 and c["cores2"] != plan["cores"]:
        p3 = dict(plan, cores=c["cores2"], stripes=eff)
        if len(realised_ymins(plan["image"]["rows"], p3["stripes"], p3["cores"], plan["grid"])) == n:
            diffcores = True
            r3 = run_expect_ok(p3, res, "cores=%d" % c["cores2"])
            if r3 is not None and not (maps_equal(r3["bkg"], base["bkg"]) and maps_equal(r3["rms"], base["rms"])):
                res.bad("not-bit-identical", "%s: maps differ between cores=%d and cores=%d" % (
                    describe(plan), base_plan["cores"], c["cores2"]))
    return finish(res, plan, n, nonid, diffcores or plan["cores"] != n)


def finish(res, plan, n, nonid, coresdiff, fault=False):
    res.nontrivial = bool(n >= 2 and (nonid or fault or coresdiff))
    res.label("stripes-%s" % ("1" if n == 1 else "2-3" if n <= 3 else "4+"))
    if n > plan["cores"]:
        res.label("stripes>cores")
    return res


def check_fault(c):
    res = Res()
    plan = concretise(c["layout"])
    ymins = realised_ymins(plan["image"]["rows"], plan["stripes"], plan["cores"], plan["grid"])
    n = len(ymins)
    phase = c["phase"]
    if not plan["mask"] and phase in ("arrive1", "release1"):
        phase = "release0"
    plan["fault"] = {"stripe": c["stripe"] % n, "phase": phase}
    r = run_plan(plan)
    tags = dict(phase=phase, single=bool(n == 1))
    if r["timed_out"]:
        why = diagnose_deadlock(r, plan)
        if why is None:
            raise HarnessError("faulted BANE run timed out without a structural diagnosis (%s)" % describe(plan))
        res.bad("fault-hangs", "%s, stripe %d raises at %s: the call never returned: %s" % (
            describe(plan), plan["fault"]["stripe"], phase, why), **tags)
    elif r.get("ok"):
        res.bad("fault-swallowed", "%s, stripe %d raised at %s but the call returned normally" % (
            describe(plan), plan["fault"]["stripe"], phase), **tags)
    else:
        # which worker's exception wins the race to the result queue is not part of the property: reported only
        res.label("exception-names-fault" if "injected fault" in r.get("exception", "") else "exception-is-secondary")
        res.stat("fault_wall_s", r["wall"])
    if r["shm_left"]:
        res.bad("shm-left-after-fault", "%s, fault at %s: shared memory left behind: %r" % (describe(plan), phase, r["shm_left"]), **tags)
    res.label("fault-" + phase)
    return finish(res, plan, n, False, False, fault=True)


def check_stripes(c):
    res = Res()
    image = {"rows": c["rows"], "cols": c["cols"], "seed": c["seed"], "dc": c["dc"], "sigma": 1.0, "gradient": c["gradient"],
             "nan_blocks": []}
    one = {"image": image, "grid": c["grid"], "box": c["box"], "cores": 1, "stripes": None, "mask": True}
    many = dict(one, cores=c["stripes"], stripes=c["stripes"])
    r1 = run_expect_ok(one, res, "1 stripe")
    rk = run_expect_ok(many, res, "%d stripes" % c["stripes"])
    if r1 is not None and rk is not None:
        db = float(np.max(np.abs(rk["bkg"].astype(float) - r1["bkg"])))
        dr = float(np.max(np.abs(rk["rms"].astype(float) - r1["rms"])))
        res.stat("stripe_dbkg_sigma", db)
        res.stat("stripe_drms_sigma", dr)
        if not (db <= 0.25 and dr <= 0.25):
            res.bad("stripe-count-changes-maps", "rows=%d box=%d dc=%g: %d stripes vs 1 stripe: max|d bkg| = %.3g sigma, "
                    "max|d rms| = %.3g sigma" % (c["rows"], c["box"], c["dc"], c["stripes"], db, dr), dc=bool(c["dc"] != 0))
    n = len(realised_ymins(c["rows"], c["stripes"], c["stripes"], c["grid"]))
    res.nontrivial = n >= 2 and c["dc"] != 0
    res.label("stripecount")
    return res


def exhaustive_orders(rec, name, tier, seed, shard, nshards, n):
    """all arrival orders of 3 stripes at both sync points x which released party is delayed (thorough tier only)"""
    import itertools
    from vlib.core import run_check
    if tier != "thorough":
        return
    perms = list(itertools.permutations(range(3)))
    k = 0
    for o0 in perms:
        for o1 in perms:
            for late in (None, (0, 0), (0, 1), (0, 2), (1, 0), (1, 2)):
                k += 1
                if k % nshards != shard:
                    continue
                keys0 = [o0.index(i) for i in range(3)] + [0] * 9
                keys1 = [o1.index(i) for i in range(3)] + [0] * 9
                case = {"layout": {"rows": 36, "cols": 24, "grid": 4, "boxmul": 3, "cores": 3, "stripes": 3, "seed": 7,
                                   "mask": True, "edge": None},
                        "orders": [keys0, keys1], "late": list(late) if late else None, "cores2": 5}
                rec.record(name, case, run_check(check_schedule, case))
    rec.exhaustive = True


TESTS = {
    "schedule": {"strategy": lambda tier: schedule_case, "check": check_schedule,
                 "n": {"quick": 140, "thorough": 3000}},
    "fault": {"strategy": lambda tier: fault_case, "check": check_fault,
              "n": {"quick": 140, "thorough": 2000}},
    "stripecount": {"strategy": lambda tier: stripes_case, "check": check_stripes,
                    "n": {"quick": 36, "thorough": 600}},
    "orders3": {"custom": exhaustive_orders, "check": check_schedule, "n": {"quick": 0, "thorough": 0}},
}
