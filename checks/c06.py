"""C06 - BANE background/noise maps obey the estimator contract (BANE.filter_image)"""
import math
import os
import shutil
import tempfile

import numpy as np
from astropy.io import fits
from hypothesis import strategies as st

from AegeanTools import BANE
from vlib.core import Res, workdir

PROP = "C06"
SHARDS = {"quick": 12, "thorough": 16}
RULE = ("Hypothesis: float64 FITS images 16..160 rows x 16..128 cols, 2-D / 3-D / 4-D with slice index, optional BSCALE "
        "(written raw, card patched afterwards), content = continuous noise (Gaussian or uniform) + optional gradient + DC "
        "offset up to 1e4 sigma + optional NaN rectangles / Inf pixels; separately exactly constant images; grid 1..16, box in "
        "[max(4, grid), 6*grid], cores 1..8, stripes 1..2*cores, mask on/off. Oracles are relations on BANE's own output: "
        "shape; constant image -> (c, 0); shift by c -> (bkg + c, rms); scale by k in {-3,-1,0.5,2,7} -> (k bkg, |k| rms); "
        "min <= bkg <= max, 0 <= rms <= range; blank propagation (non-finite in -> NaN out; far from blanks -> finite; no "
        "blanks in -> none out); stationary Gaussian noise (box >= 48) -> (m, s) within sampling error. "
        "Non-trivial = (>= 2 stripes and |c| >= 100 sigma) or blanks present or ndim > 2; distinct = distinct case.")
ASSUMPTIONS = [
    "float64 BITPIX (BANE multiplies the raw data by BSCALE in place and an added constant must not be quantised)",
    "metamorphic shift/scale relations use continuous-valued images only (with tied data a pixel can sit exactly on the 3 "
    "sigma clip boundary and legitimately flip)",
    "box >= max(4, grid) as the property's quantifier states",
]
f = st.floats

case_strategy = st.fixed_dictionaries({
    "rows": st.integers(16, 160), "cols": st.integers(16, 128),
    "ndim": st.sampled_from([2, 2, 2, 3, 4]), "planes": st.integers(1, 3), "cube_index": st.integers(0, 2),
    "bscale": st.sampled_from([None, None, None, 2.0, 0.5, -1.5]),
    "bzero": st.sampled_from([None, None, None, None, 5.0, -100.0]),      # physical = BZERO + BSCALE * stored
    "kind": st.sampled_from(["gauss", "gauss", "uniform", "constant"]),
    "seed": st.integers(0, 2 ** 31 - 1),
    "dc": st.sampled_from([0.0, 0.0, 100.0, 1000.0, -3000.0, 1e4]),
    "gradient": st.sampled_from([0.0, 0.0, 3.0, 50.0]),
    "nan_blocks": st.lists(st.tuples(f(0, 1), f(0, 1), st.integers(1, 12), st.integers(1, 12)), max_size=2),
    "inf_pixels": st.lists(st.tuples(f(0, 1), f(0, 1), st.booleans()), max_size=2),
    "grid": st.integers(1, 16), "boxmul": f(1, 6),
    "cores": st.integers(1, 8), "stripes_mul": f(0, 2),
    "mask": st.sampled_from([True, True, True, False]),
    "relation": st.sampled_from(["shift", "shift", "scale", "reencode", "none"]),
    "shift": st.sampled_from([1.0, 100.0, -1000.0, 1e4]),
    "k": st.sampled_from([-3.0, -1.0, 0.5, 2.0, 7.0]),
    "files": st.sampled_from(["none", "none", "plain", "compressed"]),
    # also run the BANE command line on the same file (default output names) and compare its files with the API's maps
    "cli": st.sampled_from([False, False, True]),
})


def make_image(c):
    rng = np.random.default_rng(c["seed"])
    rows, cols = c["rows"], c["cols"]
    if c["kind"] == "constant":
        img = np.full((rows, cols), c["dc"] if c["dc"] else 3.25)
        return img, np.zeros((rows, cols), dtype=bool)
    if c["kind"] == "gauss":
        img = rng.normal(size=(rows, cols))
    else:
        img = rng.uniform(-2, 2, size=(rows, cols))
    img = img + c["dc"] + c["gradient"] * (np.arange(rows)[:, None] / rows + 0.5 * np.arange(cols)[None, :] / cols)
    blank = np.zeros((rows, cols), dtype=bool)
    for fr, fc, h, w in c["nan_blocks"]:
        r0, c0 = int(fr * (rows - 1)), int(fc * (cols - 1))
        img[r0:r0 + h, c0:c0 + w] = np.nan
        blank[r0:r0 + h, c0:c0 + w] = True
    for fr, fc, neg in c["inf_pixels"]:
        r0, c0 = int(fr * (rows - 1)), int(fc * (cols - 1))
        img[r0, c0] = -np.inf if neg else np.inf
        blank[r0, c0] = True
    return img, blank


def write_image(c, img, path):
    """write the plane (as physical values) into a 2-D/3-D/4-D float64 file, optionally with BSCALE"""
    bs = c["bscale"]
    bz = c.get("bzero")
    raw = (img - (bz or 0.0)) / (bs or 1.0)
    planes = c["planes"] if c["ndim"] > 2 else 1
    ci = min(c["cube_index"], planes - 1)
    rng = np.random.default_rng(c["seed"] + 1)
    cube = rng.normal(size=(planes,) + img.shape) * 50 + 7      # other planes hold unrelated data
    cube[ci] = raw
    arr = cube[0] if c["ndim"] == 2 else (cube if c["ndim"] == 3 else cube[None])
    hdu = fits.PrimaryHDU(arr.astype(np.float64))
    # minimal celestial WCS (the compressed output files need CDELT/CRPIX to describe their decimated grid)
    for k, v in (("CTYPE1", "RA---SIN"), ("CTYPE2", "DEC--SIN"), ("CRVAL1", 50.0), ("CRVAL2", -20.0),
                 ("CRPIX1", img.shape[1] / 2.0), ("CRPIX2", img.shape[0] / 2.0), ("CDELT1", -0.005), ("CDELT2", 0.005)):
        hdu.header[k] = v
    hdu.writeto(path, overwrite=True)
    if bs or bz is not None:
        with fits.open(path, mode="update", do_not_scale_image_data=True) as hl:
            if bs:
                hl[0].header["BSCALE"] = bs
            if bz is not None:
                hl[0].header["BZERO"] = bz
    # the oracle's "image" is what astropy reads for that plane
    data = fits.getdata(path)
    data = np.asarray(data, dtype=np.float64)
    plane = data if c["ndim"] == 2 else (data[ci] if c["ndim"] == 3 else data[0, ci])
    return plane, ci


def run_bane(path, c, ci, grid, box, cores, stripes, out_base=None, compressed=False):
    return BANE.filter_image(path, out_base=out_base, step_size=(grid, grid), box_size=(box, box), cores=cores,
                             nslice=stripes, mask=c["mask"], cube_index=ci, compressed=compressed)


def check_case(c):
    res = Res()
    grid = c["grid"]
    box = int(c["box"]) if c.get("box") else int(max(4, grid, round(grid * c["boxmul"])))
    cores = c["cores"]
    stripes = max(1, int(round(c["stripes_mul"] * cores))) if cores > 1 else None
    img, blank = make_image(c)
    d = workdir("c06_")
    tags = dict(stripes=bool((stripes or 1) > 1 and cores > 1), mask=c["mask"], kind=c["kind"])
    try:
        path = os.path.join(d, "im.fits")
        plane, ci = write_image(c, img, path)
        files = c.get("files", "none")
        out_base = os.path.join(d, "out") if files != "none" else None
        out = run_bane(path, c, ci, grid, box, cores, stripes, out_base=out_base, compressed=(files == "compressed"))
        if out is None:
            res.bad("returned-none", "filter_image returned None")
            return res
        bkg, rms = (np.asarray(a, dtype=np.float64) for a in out)
        what = "%dx%d grid=%d box=%d cores=%d stripes=%s ndim=%d" % (c["rows"], c["cols"], grid, box, cores, stripes, c["ndim"])
        if bkg.shape != plane.shape or rms.shape != plane.shape:
            res.bad("shape", "%s: maps %r / %r for an image %r" % (what, bkg.shape, rms.shape, plane.shape), **tags)
            return res
        fin = np.isfinite(plane)
        lo, hi = (float(plane[fin].min()), float(plane[fin].max())) if fin.any() else (0.0, 0.0)
        scale = max(abs(lo), abs(hi), 1.0)
        tol = 8 * np.finfo(np.float32).eps * scale
        fb, fr = np.isfinite(bkg), np.isfinite(rms)
        # ---- bounds
        if fb.any() and not (bkg[fb].min() >= lo - tol and bkg[fb].max() <= hi + tol):
            res.bad("bkg-bounds", "%s: background range [%r, %r] outside the data range [%r, %r]" % (
                what, float(bkg[fb].min()), float(bkg[fb].max()), lo, hi), **tags)
        if fr.any() and not (rms[fr].min() >= 0 and rms[fr].max() <= (hi - lo) + tol):
            res.bad("rms-bounds", "%s: noise range [%r, %r], data range %r" % (
                what, float(rms[fr].min()), float(rms[fr].max()), hi - lo), **tags)
        # ---- constant image
        if c["kind"] == "constant":
            cval = float(plane[0, 0])
            if not (fb.all() and np.all(np.abs(bkg - cval) <= 1e-6 * max(1, abs(cval)))):
                res.bad("constant-bkg", "%s: constant image %r gives background in [%r, %r]" % (
                    what, cval, float(np.nanmin(bkg)), float(np.nanmax(bkg))), **tags)
            if not (fr.all() and np.all(np.abs(rms) <= 1e-6 * max(1, abs(cval)))):
                res.bad("constant-rms", "%s: constant image %r gives noise up to %r" % (what, cval, float(np.nanmax(np.abs(rms)))), **tags)
        # ---- blank propagation
        nonfin = ~fin
        if c["mask"]:
            if np.any(nonfin & (fb | fr)):
                res.bad("blank-not-propagated", "%s: %d non-finite input pixels are finite in the maps" % (
                    what, int(np.sum(nonfin & (fb | fr)))), **tags)
            if nonfin.any():
                from scipy.ndimage import distance_transform_cdt
                dist = distance_transform_cdt(~nonfin, metric="chessboard")
                far = dist > (box / 2.0 + grid)
                if np.any(far & ~(fb & fr)):
                    i, j = [int(v[0]) for v in np.where(far & ~(fb & fr))]
                    res.bad("blank-spreads", "%s: pixel (%d,%d), %d px from the nearest blank (> box/2 + grid = %g), is blank "
                            "in the maps" % (what, i, j, int(dist[i, j]), box / 2.0 + grid), **tags)
        if not nonfin.any() and not (fb.all() and fr.all()):
            res.bad("blank-created", "%s: image without blank pixels gives %d blank map pixels" % (
                what, int(np.sum(~(fb & fr)))), **tags)
        # ---- stationary Gaussian noise
        if c["kind"] == "gauss" and c["gradient"] == 0 and not nonfin.any() and box >= 48 and min(c["rows"], c["cols"]) > box:
            nedge = (box // 2 - 1) ** 2
            m, s = c["dc"], 1.0
            if not np.all(np.abs(bkg - m) <= 8 * s / math.sqrt(nedge) + tol):
                res.bad("gaussian-bkg", "%s: N(%g,1) image: background deviates by %.3g" % (what, m, float(np.max(np.abs(bkg - m)))), **tags)
            if not np.all(np.abs(rms / s - 1) <= 0.05 + 8 / math.sqrt(2 * nedge)):
                res.bad("gaussian-rms", "%s: N(%g,1) image: noise/s in [%.3g, %.3g]" % (what, m, float(rms.min()), float(rms.max())), **tags)
            res.label("gaussian-clause")
            res.stat("gauss_rms_ratio_minus_1", float(np.max(np.abs(rms - 1))))
        # ---- the *_bkg.fits / *_rms.fits files hold the returned maps
        if out_base is not None:
            from AegeanTools import fits_tools
            bs = c["bscale"] or 1.0
            bz = c.get("bzero") or 0.0
            for name, arr in (("bkg", bkg), ("rms", rms)):
                fn = "%s_%s.fits" % (out_base, name)
                if not os.path.exists(fn):
                    res.bad("output-file-missing", "%s: %s was not written" % (what, os.path.basename(fn)), **tags)
                    continue
                if files == "plain":
                    with fits.open(fn, do_not_scale_image_data=True) as hl:
                        raw = np.asarray(hl[0].data, dtype=np.float64)
                    if raw.shape != arr.shape or not np.allclose(raw * bs + bz, arr, rtol=2e-6, atol=1e-30 + 4e-7 * abs(bz), equal_nan=True):
                        res.bad("output-file-values", "%s: %s does not hold the returned %s map (/BSCALE)" % (
                            what, os.path.basename(fn), name), **tags)
                else:
                    hdr_c = fits.getheader(fn)
                    if not fits_tools.is_compressed(hdr_c):
                        res.bad("output-file-not-compressed", "%s: compressed=True but %s has no BN_ keywords" % (
                            what, os.path.basename(fn)), **tags)
                        continue
                    exh = fits_tools.expand(fn)
                    ex = np.asarray(exh[0].data, dtype=np.float64)
                    # ... and describes the same sky as the image: expanding restores the image's WCS keywords (both files:
                    # each must be compressed from its own copy of the header)
                    h_in, h_ex = fits.getheader(path), exh[0].header
                    for k in ("CRPIX1", "CRPIX2", "CDELT1", "CDELT2", "CRVAL1", "CRVAL2"):
                        a_, b_ = float(h_in[k]), float(h_ex.get(k, float("nan")))
                        t_ = 1e-9 + 1e-12 * abs(a_) if k.startswith("CRPIX") else 1e-12 * abs(a_)
                        if not abs(a_ - b_) <= t_:
                            res.bad("compressed-file-wcs", "%s: %s expands to %s = %r, the image has %r" % (
                                what, os.path.basename(fn), k, b_, a_), **tags)
                            break
                    if ex.shape != arr.shape:
                        res.bad("output-file-shape", "%s: expanded %s has shape %r, the map %r" % (
                            what, os.path.basename(fn), ex.shape, arr.shape), **tags)
                    elif not nonfin.any() and c["kind"] != "constant":
                        # BANE maps are linear between grid nodes: the compressed file must expand back to the map on
                        # all complete cells
                        rl = ((c["rows"] - 1) // grid) * grid
                        cl = ((c["cols"] - 1) // grid) * grid
                        a_, b_ = ex[:rl + 1, :cl + 1], arr[:rl + 1, :cl + 1]     # (astropy applies the BSCALE card on read)
                        if cores > 1 and (stripes or 1) > 1:
                            # with several stripes the two stripes meeting at a boundary row each have their own node value
                            # there, so the map is not linear across that cell: only the grid nodes themselves are compared
                            a_, b_ = a_[::grid, ::grid], b_[::grid, ::grid]
                        t_ = 1e-5 * max(scale, 1.0)
                        if not np.all(np.abs(a_ - b_) <= t_):
                            res.bad("compressed-file-values", "%s: expanding %s differs from the returned map by %.3g on "
                                    "complete grid cells" % (what, os.path.basename(fn), float(np.max(np.abs(a_ - b_)))), **tags)
            res.label("files-" + files)
        # ---- the BANE command line gives the same maps (default output names next to the image; --slice for cubes)
        if c.get("cli") and not res.violations:
            from AegeanTools.CLI import BANE as bane_cli
            argv = [path, "--grid", str(grid), str(grid), "--box", str(box), str(box), "--cores", str(cores)]
            if c["ndim"] > 2:
                argv += ["--slice", str(ci)]
            if stripes is not None:
                argv += ["--stripes", str(stripes)]
            if not c["mask"]:
                argv.append("--nomask")
            rc = bane_cli.main(argv)
            bs = c["bscale"] or 1.0
            bz = c.get("bzero") or 0.0
            for name, arr in (("bkg", bkg), ("rms", rms)):
                fn = os.path.join(d, "im_%s.fits" % name)
                if rc != 0 or not os.path.exists(fn):
                    res.bad("cli-output-missing", "%s: BANE %s returned %r and im_%s.fits %s" % (
                        what, " ".join(argv[1:]), rc, name, "exists" if os.path.exists(fn) else "was not written"), **tags)
                    break
                with fits.open(fn, do_not_scale_image_data=True) as hl:
                    raw = np.asarray(hl[0].data, dtype=np.float64)
                if raw.shape != arr.shape or not np.allclose(raw * bs + bz, arr, rtol=2e-6, atol=1e-30 + 4e-7 * abs(bz), equal_nan=True):
                    res.bad("cli-maps-differ", "%s: the %s map written by the BANE command line differs from filter_image's" % (
                        what, name), **tags)
                    break
            res.label("cli")
        # ---- metamorphic relations (continuous-valued data only)
        if c["kind"] != "constant" and c["relation"] != "none":
            c2 = c
            path2 = os.path.join(d, "im2.fits")
            if c["relation"] == "shift":
                cc = c["shift"]
                img2 = img + cc
            elif c["relation"] == "scale":
                k = c["k"]
                img2 = img * k
            else:
                # the same physical plane, stored differently (other BSCALE, other dimensionality) under the SAME file
                # name: the maps must not change (also exercises anything remembered about a path between calls)
                img2 = img
                c2 = dict(c, bscale={None: 4.0, 2.0: None, 0.5: -3.0, -1.5: 2.0}.get(c["bscale"], None),
                          ndim={2: 3, 3: 4, 4: 2}[c["ndim"]], planes=2)
                path2 = path
            plane2, ci2 = write_image(c2, img2, path2)
            out2 = run_bane(path2, c2, ci2, grid, box, cores, stripes)
            b2, r2 = (np.asarray(a, dtype=np.float64) for a in out2)
            both = np.isfinite(bkg) & np.isfinite(b2)
            bothr = np.isfinite(rms) & np.isfinite(r2)      # near blanks the noise may be blank where the background is not
            if not (np.array_equal(np.isfinite(bkg), np.isfinite(b2)) and np.array_equal(np.isfinite(rms), np.isfinite(r2))):
                res.bad(c["relation"] + "-blank-pattern", "%s: the pattern of blank map pixels changes" % what, **tags)
            eps32 = float(np.finfo(np.float32).eps)
            if c["relation"] == "shift":
                mag = max(scale, abs(cc) + scale)
                t = 4 * eps32 * mag + 1e-9 * abs(cc)
                db = float(np.max(np.abs((b2 - cc) - bkg)[both])) if both.any() else 0.0
                dr = float(np.max(np.abs(r2 - rms)[bothr])) if bothr.any() else 0.0
                res.stat("shift_dbkg", db)
                res.stat("shift_drms", dr)
                if not db <= t:
                    res.bad("shift-bkg", "%s: adding %g changes the background by %g + %.3g" % (what, cc, cc, db), **tags)
                if not dr <= t:
                    res.bad("shift-rms", "%s: adding %g changes the noise by up to %.3g (noise ~%.3g)" % (
                        what, cc, dr, float(np.nanmedian(rms))), **tags)
            elif c["relation"] == "reencode":
                tb = 1e-5 * scale
                db = float(np.max(np.abs(b2 - bkg)[both])) if both.any() else 0.0
                dr = float(np.max(np.abs(r2 - rms)[bothr])) if bothr.any() else 0.0
                if not (db <= tb and dr <= tb):
                    res.bad("reencode", "%s: the same image stored with BSCALE=%r as %d-D under the same file name gives maps "
                            "differing by %.3g (bkg) / %.3g (rms)" % (what, c2["bscale"], c2["ndim"], db, dr), **tags)
            else:
                tb = 1e-5 * abs(k) * scale
                db = float(np.max(np.abs(b2 - k * bkg)[both])) if both.any() else 0.0
                dr = float(np.max(np.abs(r2 - abs(k) * rms)[bothr])) if bothr.any() else 0.0
                if not db <= tb:
                    res.bad("scale-bkg", "%s: scaling by %g: background differs from k*bkg by %.3g" % (what, k, db), **tags)
                if not dr <= tb:
                    res.bad("scale-rms", "%s: scaling by %g: noise differs from |k|*rms by %.3g" % (what, k, dr), **tags)
            res.label("relation-" + c["relation"])
        multi = bool(cores > 1 and (stripes or 1) > 1)
        bigshift = abs(c["dc"]) >= 100 or (c["relation"] == "shift" and abs(c["shift"]) >= 100)
        res.nontrivial = bool((multi and bigshift) or nonfin.any() or c["ndim"] > 2)
        res.label("ndim%d" % c["ndim"], "multi-stripe" if multi else "single-stripe")
        if c["bscale"]:
            res.label("bscale")
        if c.get("bzero") is not None:
            res.label("bzero")
        if nonfin.any():
            res.label("blanks")
    finally:
        shutil.rmtree(d, ignore_errors=True)
    return res


gauss_strategy = case_strategy.map(lambda c: dict(
    c, kind="gauss", gradient=0.0, nan_blocks=[], inf_pixels=[], rows=100 + c["rows"] % 61, cols=100 + c["cols"] % 29,
    grid=[8, 12, 16][c["grid"] % 3], box=[48, 64][c["seed"] % 2]))

# ------------------------------------------------------------------ images stored as integers
int_strategy = st.fixed_dictionaries({
    "rows": st.integers(20, 90), "cols": st.integers(20, 90), "grid": st.integers(2, 10), "boxmul": f(1, 4),
    "cores": st.sampled_from([1, 2]), "dtype": st.sampled_from(["i2", "i4"]),
    "bscale": st.sampled_from([None, None, 0.5, -2.0]), "bzero": st.sampled_from([None, None, 10.0, -300.0]),
    "seed": st.integers(0, 2 ** 31 - 1)})


def check_int(c):
    """BITPIX 16 / 32 with or without BSCALE / BZERO: shape, bounds and finiteness (the relations of the main test need
    continuous-valued data and are not asserted here)"""
    res = Res()
    rng = np.random.default_rng(c["seed"])
    raw = rng.integers(-400, 400, size=(c["rows"], c["cols"])).astype(c["dtype"])
    d = workdir("c06i_")
    try:
        path = os.path.join(d, "im.fits")
        hdu = fits.PrimaryHDU(raw)
        for k, v in (("CTYPE1", "RA---SIN"), ("CTYPE2", "DEC--SIN"), ("CRVAL1", 50.0), ("CRVAL2", -20.0),
                     ("CRPIX1", c["cols"] / 2.0), ("CRPIX2", c["rows"] / 2.0), ("CDELT1", -0.005), ("CDELT2", 0.005)):
            hdu.header[k] = v
        hdu.writeto(path, overwrite=True)
        if c["bscale"] or c["bzero"] is not None:
            with fits.open(path, mode="update", do_not_scale_image_data=True) as hl:
                if c["bscale"]:
                    hl[0].header["BSCALE"] = c["bscale"]
                if c["bzero"] is not None:
                    hl[0].header["BZERO"] = c["bzero"]
        plane = np.asarray(fits.getdata(path), dtype=np.float64)       # physical values as astropy scales them
        g = c["grid"]
        box = int(max(4, g, round(g * c["boxmul"])))
        out = BANE.filter_image(path, out_base=None, step_size=(g, g), box_size=(box, box), cores=c["cores"],
                                nslice=None if c["cores"] == 1 else c["cores"], mask=True, cube_index=0)
        what = "%dx%d %s BSCALE=%r BZERO=%r grid=%d box=%d" % (c["rows"], c["cols"], c["dtype"], c["bscale"], c["bzero"], g, box)
        if out is None:
            res.bad("int-returned-none", "%s: filter_image returned None" % what)
            return res
        bkg, rms = (np.asarray(a, dtype=np.float64) for a in out)
        lo, hi = float(plane.min()), float(plane.max())
        tol = 8 * np.finfo(np.float32).eps * max(abs(lo), abs(hi), 1.0)
        if bkg.shape != plane.shape or rms.shape != plane.shape:
            res.bad("int-shape", "%s: maps %r / %r" % (what, bkg.shape, rms.shape))
        elif not (np.all(np.isfinite(bkg)) and np.all(np.isfinite(rms))):
            res.bad("int-blank-created", "%s: an image without blanks gives %d blank map pixels" % (what, int(np.sum(~np.isfinite(bkg) | ~np.isfinite(rms)))))
        elif not (bkg.min() >= lo - tol and bkg.max() <= hi + tol and rms.min() >= 0 and rms.max() <= (hi - lo) + tol):
            res.bad("int-bounds", "%s: background [%r, %r], noise [%r, %r], data [%r, %r]" % (
                what, float(bkg.min()), float(bkg.max()), float(rms.min()), float(rms.max()), lo, hi))
        res.nontrivial = bool(c["bscale"] or c["bzero"] is not None)
        res.label("integer-image")
    finally:
        shutil.rmtree(d, ignore_errors=True)
    return res


TESTS = {
    "intimage": {"strategy": lambda tier: int_strategy, "check": check_int, "n": {"quick": 64, "thorough": 2000}},
    "gaussian": {"strategy": lambda tier: gauss_strategy, "check": check_case,
                 "n": {"quick": 60, "thorough": 2000}},
    "contract": {"strategy": lambda tier: case_strategy, "check": check_case,
                 "n": {"quick": 360, "thorough": 12000}},
}
