"""C11 - region-restricted finding = unrestricted finding filtered by island membership (find_islands / find_sources_in_image)"""
import copy
import math
import os
import shutil
import tempfile

import healpy as hp
import numpy as np
from hypothesis import strategies as st

from AegeanTools.regions import Region
from AegeanTools.source_finder import SourceFinder, find_islands
from AegeanTools.wcs_helpers import WCSHelper
from vlib import refs, skyimg
from vlib.core import Res, workdir

PROP = "C11"
SHARDS = {"quick": 16, "thorough": 16}
TIME_LIMIT = {"quick": 2400, "thorough": 8 * 3600}
CASE_TIMEOUT_S = 300   # a case that takes longer is inconclusive (counted as ambiguous), never a violation
RULE = ("Hypothesis: 96..160 px noise-free or low-noise images (SIN/TAN/ZEA/ARC/STG, any dec <= 80, 20..60 arcsec pixels) with "
        "4..15 islands: round, elongated (axis ratio 3-5), L-shaped (two overlapping components) and merged blobs; regions = "
        "circles or convex polygons at a depth whose HEALPix resolution is <= 1/2 pixel whose edge is placed THROUGH 1-3 chosen "
        "islands (radius solved from the island's pixel positions so that 5-95 % of its pixels are inside), plus whole-image and "
        "disjoint regions; seed/flood in {(5,4),(6,3),(10,10)}. Oracle: U = unrestricted run, islands from the harness's "
        "flood fill, island pixel centres -> sky (harness WCS) -> HEALPix membership; expected = components of U whose island "
        "has >= 1 inside pixel, compared as multisets of all fitted values with exact float equality (island numbers may "
        "differ); find_islands(region=) must return exactly the islands with an inside pixel. Non-trivial = >= 1 straddling "
        "island with < 50 % of its pixels inside and >= 1 wholly outside island; distinct = distinct case.")
ASSUMPTIONS = [
    "islands whose only inside pixels are ambiguous (membership changes under a 1e-9 deg perturbation) are skipped and counted",
    "the region's own correctness is C08/C09's job: the oracle reads the region's deepest-level pixel set",
]
f = st.floats

src_st = st.fixed_dictionaries({
    "kind": st.sampled_from(["round", "round", "elong", "L", "blob"]),
    "fx": f(0.1, 0.9), "fy": f(0.1, 0.9), "pa": f(-90, 90), "snr": f(12, 100), "neg": st.sampled_from([False, False, True]),
})

case_strategy = st.fixed_dictionaries({
    "rep": skyimg.rep_strategy,      # how the image is stored (CD matrix, degenerate axes, BSCALE/BZERO)
    "proj": st.sampled_from(refs.ZWCS.PROJ),
    "crval": st.tuples(st.one_of(f(0, 360, exclude_max=True), st.sampled_from([0.002, 359.998])), f(-80, 80)),
    "scale": f(20, 60), "rows": st.integers(96, 160), "cols": st.integers(96, 160),
    "beam": st.tuples(f(4, 5.5), f(1, 1.4), f(-90, 90)),
    "srcs": st.lists(src_st, min_size=4, max_size=15),
    "clip": st.sampled_from([(5.0, 4.0), (5.0, 4.0), (6.0, 3.0), (10.0, 10.0)]),
    "noise": st.sampled_from([0.0, 0.0, 0.25]), "seed": st.integers(0, 2 ** 31 - 1),
    "region": st.fixed_dictionaries({
        "kind": st.sampled_from(["through", "through", "through", "whole", "disjoint", "inside", "holed"]),
        "shape": st.sampled_from(["circle", "circle", "poly"]),
        "targets": st.lists(st.tuples(st.integers(0, 30), f(0.05, 0.95), f(0, 360), f(8, 60)), min_size=1, max_size=3),
    }),
    "docov": st.sampled_from([False, False, True]),
    "cli": st.sampled_from([False, False, True]),
})


def build_image(c):
    s = c["scale"] / 3600.0
    rows, cols = c["rows"], c["cols"]
    if math.hypot(rows, cols) / 2 > 1.2 / s:
        k = 1.2 / s / (math.hypot(rows, cols) / 2)
        rows, cols = max(80, int(rows * k)), max(80, int(cols * k))
    bmin, br, bpa = c["beam"]
    w, hdr = skyimg.make_header(c["proj"], c["crval"], ((cols + 1) / 2.0 + 4.2, (rows + 1) / 2.0 - 3.7), c["scale"],
                                (rows, cols), (bmin * br, 1.0 / br, bpa))
    beam = (hdr["BMAJ"], hdr["BMIN"], hdr["BPA"])
    sky = []
    placed = []
    for sc in c["srcs"]:
        px, py = 1 + sc["fx"] * (cols - 1), 1 + sc["fy"] * (rows - 1)
        if any(math.hypot(px - q[0], py - q[1]) < 22 for q in placed):
            continue
        placed.append((px, py))
        ra, dec = (float(v) for v in w.pix2sky(px, py))
        amp = (-1.0 if sc["neg"] else 1.0) * sc["snr"]
        if sc["kind"] == "round":
            sky.append(dict(ra=ra, dec=dec, peak=amp, a=beam[0], b=beam[1], pa=beam[2]))
        elif sc["kind"] == "elong":
            a, b, pa = skyimg.convolve(beam, (3.5 * beam[0], 0.2 * beam[0], sc["pa"]))
            sky.append(dict(ra=ra, dec=dec, peak=amp, a=a, b=b, pa=pa))
        elif sc["kind"] == "L":
            for dpa, off in ((0.0, 0.0), (90.0, 1.0)):
                a, b, pa = skyimg.convolve(beam, (2.5 * beam[0], 0.2 * beam[0], sc["pa"] + dpa))
                r2, d2 = (float(v) for v in refs.vdest(ra, dec, off * 1.2 * beam[0], sc["pa"] + 45))
                sky.append(dict(ra=r2, dec=d2, peak=amp, a=a, b=b, pa=pa))
        else:
            for off in (-0.6, 0.6):
                r2, d2 = (float(v) for v in refs.vdest(ra, dec, abs(off) * 1.3 * beam[0], sc["pa"] + (0 if off > 0 else 180)))
                sky.append(dict(ra=r2, dec=d2, peak=amp * (1.0 if off > 0 else 0.7), a=beam[0], b=beam[1], pa=beam[2]))
    img = skyimg.render(w, (rows, cols), sky)
    if c["noise"]:
        img = img + np.random.default_rng(c["seed"]).normal(size=img.shape) * c["noise"]
    return w, hdr, (rows, cols), img


def island_sky(w, pixels):
    rr = np.array([p[0] for p in pixels], dtype=float)
    cc = np.array([p[1] for p in pixels], dtype=float)
    return w.pix2sky(cc + 1.0, rr + 1.0)


def membership(pixset, depth, ra, dec):
    nside = 2 ** depth
    arr = np.fromiter(pixset, dtype=np.int64, count=len(pixset)) if pixset else np.zeros(0, dtype=np.int64)

    def inside(r_, d_):
        pix = hp.ang2pix(nside, np.radians(90.0 - np.clip(d_, -90, 90)), np.radians(np.mod(r_, 360.0)), nest=True)
        return np.isin(pix, arr)
    base = inside(ra, dec)
    amb = np.zeros(ra.shape, dtype=bool)
    cosd = np.maximum(np.cos(np.radians(dec)), 1e-6)
    for dr, dd in ((1e-9, 0), (-1e-9, 0), (0, 1e-9), (0, -1e-9)):
        amb |= inside(ra + dr / cosd, dec + dd) != base
    return base, amb


def build_region(c, w, shape, islands_px):
    rc = c["region"]
    s = c["scale"] / 3600.0
    rows, cols = shape
    cra, cdec = (float(v) for v in w.pix2sky((cols + 1) / 2.0, (rows + 1) / 2.0))
    half = math.hypot(rows, cols) / 2 * s
    if rc["kind"] == "whole":
        depth = max(3, int(math.ceil(math.log2(58.6323 / (4 * s)))))
        reg = Region(maxdepth=depth)
        reg.add_circles(math.radians(cra), math.radians(cdec), math.radians(half * 1.25))
        return reg, depth
    if rc["kind"] == "disjoint":
        depth = max(3, int(math.ceil(math.log2(58.6323 / (2 * s)))))
        reg = Region(maxdepth=depth)
        far = refs.vdest(cra, cdec, half * 2.5 + 0.2, rc["targets"][0][2])
        reg.add_circles(math.radians(float(far[0])), math.radians(float(far[1])), math.radians(half * 0.5))
        return reg, depth
    if rc["kind"] == "holed" and islands_px:
        # a non-convex region: a disc covering the whole image (corners and centre included) minus a small disc around
        # one island, which then lies wholly in the hole
        depth = max(3, int(math.ceil(math.log2(58.6323 / (1.0 * s)))))
        reg = Region(maxdepth=depth)
        reg.add_circles(math.radians(cra), math.radians(cdec), math.radians(half * 1.25))
        isl = sorted(islands_px[rc["targets"][0][0] % len(islands_px)])
        ra, dec = island_sky(w, isl)
        cen = (float(np.mean([p[1] for p in isl])) + 1.0, float(np.mean([p[0] for p in isl])) + 1.0)
        hra, hdec = (float(v) for v in w.pix2sky(*cen))
        rad = float(np.max(refs.vsep(hra, hdec, ra, dec))) + (1.5 + 4 * rc["targets"][0][1]) * s
        hole = Region(maxdepth=depth)
        hole.add_circles(math.radians(hra), math.radians(hdec), math.radians(rad))
        reg.without(hole)
        return reg, depth
    depth = min(16, max(3, int(math.ceil(math.log2(58.6323 / (0.5 * s))))))
    reg = Region(maxdepth=depth)
    if not islands_px:
        reg.add_circles(math.radians(cra), math.radians(cdec), math.radians(10 * s))
        return reg, depth
    if rc["kind"] == "inside":
        # a tiny region lying wholly inside an island (only interior pixels of the island have their centre in it)
        for ti, frac, phi, dist_px in rc["targets"]:
            isl = sorted(islands_px[ti % len(islands_px)])
            rr = np.array([p[0] for p in isl])
            cc = np.array([p[1] for p in isl])
            # the island pixel closest to the centroid
            k = int(np.argmin((rr - rr.mean()) ** 2 + (cc - cc.mean()) ** 2))
            pra, pdec = (float(v) for v in w.pix2sky(cc[k] + 1.0, rr[k] + 1.0))
            reg.add_circles(math.radians(pra), math.radians(pdec), math.radians((0.4 + 1.2 * frac) * s))
        return reg, depth
    for ti, frac, phi, dist_px in rc["targets"]:
        isl = sorted(islands_px[ti % len(islands_px)])
        ra, dec = island_sky(w, isl)
        cen = (float(np.mean([p[1] for p in isl])) + 1.0, float(np.mean([p[0] for p in isl])) + 1.0)
        cra_, cdec_ = (float(v) for v in w.pix2sky(*cen))
        ora, odec = (float(v) for v in refs.vdest(cra_, cdec_, dist_px * s, phi))
        d = np.sort(refs.vsep(ora, odec, ra, dec))
        k = min(len(d) - 1, max(1, int(round(frac * len(d)))))
        radius = 0.5 * (d[k - 1] + d[k]) if len(d) > 1 else d[0] + 0.3 * s
        if rc["shape"] == "circle" or radius < 3 * s:
            reg.add_circles(math.radians(ora), math.radians(odec), math.radians(float(radius)))
        else:
            # a polygon one of whose edges is tangent to that circle at the island side: an octagon of inradius `radius`
            circ = radius / math.cos(math.pi / 8)
            verts = [tuple(float(v) for v in refs.vdest(ora, odec, circ, az)) for az in np.arange(8) * 45.0 + 22.5 + phi]
            try:
                reg.add_poly([[math.radians(a), math.radians(b)] for a, b in verts])
            except Exception as e:
                if "healpy" in repr(type(e)).lower() or "degenerate" in str(e).lower():
                    reg.add_circles(math.radians(ora), math.radians(odec), math.radians(float(radius)))
                else:
                    raise
    return reg, depth


def row_of(comp):
    vals = [comp.ra, comp.dec, comp.peak_flux, comp.a, comp.b, comp.pa, comp.int_flux, comp.err_ra, comp.err_dec,
            comp.err_peak_flux, comp.err_a, comp.err_b, comp.err_pa, comp.err_int_flux, comp.flags, comp.source,
            comp.local_rms, comp.background]
    return tuple("nan" if (isinstance(v, float) and math.isnan(v)) else (float(v) if not isinstance(v, int) else v) for v in vals)


def check_case(c):
    res = Res()
    w, hdr, shape, img = build_image(c)
    seedclip, floodclip = c["clip"]
    rms = 1.0
    snr = np.abs(img) / rms
    kept, _ = refs.bfs_islands(snr, floodclip, seedclip)
    kept = sorted(kept, key=lambda g: min(g))               # raster order of the first pixel = scipy label order
    region, depth = build_region(c, w, shape, kept)
    pixset = set(int(p) for p in copy.deepcopy(region).get_demoted())
    frac_in, amb_only = [], []
    for g in kept:
        isl = sorted(g)
        ra, dec = island_sky(w, isl)
        ins, amb = membership(pixset, depth, np.asarray(ra), np.asarray(dec))
        sure_in = ins & ~amb
        frac_in.append(float(np.mean(ins)))
        amb_only.append(bool(not sure_in.any() and (ins | amb).any() and amb.any()))
    expect_in = [fr > 0 for fr in frac_in]
    tags = dict(region=c["region"]["kind"], shape=c["region"]["shape"], proj=c["proj"])
    what = "%s %s region (depth %d), clip %r, %d islands" % (c["region"]["kind"], c["region"]["shape"], depth, tuple(c["clip"]), len(kept))
    # ---- (1) find_islands with the region
    helper = WCSHelper.from_header(hdr)
    got = find_islands(img.copy(), np.zeros_like(img), np.full_like(img, rms), seed_clip=seedclip, flood_clip=floodclip,
                       region=copy.deepcopy(region), wcs=helper)
    gsets = []
    for isl in got:
        bb = np.asarray(isl.bounding_box)
        rr, cc = np.where(~np.asarray(isl.mask, dtype=bool))
        gsets.append(frozenset(zip((rr + int(bb[0][0])).tolist(), (cc + int(bb[1][0])).tolist())))
    gset = set(gsets)
    for g, want, fr, ao in zip(kept, expect_in, frac_in, amb_only):
        if ao:
            res.ambiguous += 1
            continue
        if want and g not in gset:
            res.bad("island-lost", "%s: an island with %.0f %% of its %d pixels inside the region is not returned by "
                    "find_islands(region=)" % (what, 100 * fr, len(g)), **dict(tags, whole=bool(fr == 1.0)))
            break
        if not want and g in gset:
            res.bad("outside-island-kept", "%s: an island with no pixel inside the region is returned by find_islands(region=)" % what, **tags)
            break
    if any(g not in set(kept) for g in gset):
        res.bad("unknown-island", "%s: find_islands(region=) returns a pixel group that is not an island of the image" % what, **tags)
    # ---- (2) components: restricted run = filtered unrestricted run
    d = workdir("c11_")
    try:
        path = os.path.join(d, "im.fits")
        skyimg.write_fits(path, img, hdr, rep=c.get("rep"))
        U = SourceFinder().find_sources_in_image(path, rms=rms, bkg=0.0, innerclip=seedclip, outerclip=floodclip,
                                                 docov=c["docov"], cores=1, **skyimg.cube_kw(c.get("rep")))
        R = SourceFinder().find_sources_in_image(path, rms=rms, bkg=0.0, innerclip=seedclip, outerclip=floodclip,
                                                 docov=c["docov"], cores=1, mask=copy.deepcopy(region),
                                                 **skyimg.cube_kw(c.get("rep")))
        cli_rows = None
        if c.get("cli"):
            from vlib.cli import run_aegean
            mim = os.path.join(d, "region.mim")
            region.save(mim)
            argv = ["--forcerms", rms, "--forcebkg", 0.0, "--seedclip", seedclip, "--floodclip", floodclip, "--negative",
                    "--region", mim] + ([] if c["docov"] else ["--nocov"])
            rc, cli_rows = run_aegean(path, d, "region", argv)
            if rc not in (0, None):
                res.bad("cli-region-run", "aegean --region returned %r" % (rc,), **tags)
    finally:
        shutil.rmtree(d, ignore_errors=True)
    if cli_rows is not None and not res.violations:
        def numrow(s_):
            return tuple("nan" if (isinstance(v, float) and math.isnan(v)) else float(v) for v in
                         (s_.ra, s_.dec, s_.peak_flux, s_.a, s_.b, s_.pa, s_.int_flux, s_.err_ra, s_.err_peak_flux, s_.flags, s_.source))
        if sorted(numrow(s_) for s_ in cli_rows) != sorted(numrow(s_) for s_ in R):
            res.bad("cli-region-differs", "%s: `aegean --region` wrote %d components, find_sources_in_image(mask=) returns %d "
                    "(or their values differ)" % (what, len(cli_rows), len(R)), **tags)
        res.label("cli")
    nisl_u = max([u.island for u in U], default=0)
    if nisl_u > len(kept):
        res.bad("island-numbering", "%s: unrestricted run numbers %d islands, the image has %d" % (what, nisl_u, len(kept)), **tags)
        return res
    expected = []
    skip = False
    for u in U:
        k = u.island - 1                      # islands are numbered 1.. in find_islands order
        if amb_only[k]:
            skip = True
            continue
        if expect_in[k]:
            expected.append(row_of(u))
    if not skip:
        got_rows = sorted(row_of(r) for r in R)
        if got_rows != sorted(expected):
            missing = len([e for e in expected if e not in got_rows])
            extra = len([g_ for g_ in got_rows if g_ not in expected])
            res.bad("components-differ", "%s: restricted run returns %d components; the unrestricted run has %d components in "
                    "islands touching the region (%d of them missing or altered, %d unexpected)" % (
                        what, len(R), len(expected), missing, extra), **tags)
        if c["region"]["kind"] == "whole" and sorted(row_of(u) for u in U) != got_rows:
            res.bad("whole-image-region-changes-result", "%s: a region covering the whole image changes the catalogue" % what, **tags)
    straddle = any(0 < fr < 0.5 for fr in frac_in)
    outside = any(fr == 0 for fr in frac_in)
    res.nontrivial = bool(straddle and outside)
    res.label("region-" + c["region"]["kind"], "clip-%g-%g" % tuple(c["clip"]))
    if straddle:
        res.label("straddling-island")
    res.stat("islands", len(kept))
    return res


TESTS = {
    "restricted": {"strategy": lambda tier: case_strategy, "check": check_case,
                   "n": {"quick": 160, "thorough": 3000}},
}
