"""C05 - priorized fitting measures the catalogued sources where and as catalogued (SourceFinder.priorized_fit_islands)"""
import copy
import math
import os
import shutil
import tempfile

import numpy as np
from hypothesis import strategies as st

from AegeanTools import flags
from AegeanTools.models import ComponentSource
from AegeanTools.source_finder import SourceFinder
from vlib import refs, skyimg
from vlib.core import Res, workdir

PROP = "C05"
SHARDS = {"quick": 16, "thorough": 16}
TIME_LIMIT = {"quick": 2400, "thorough": 8 * 3600}
CASE_TIMEOUT_S = 600   # a case that takes longer is inconclusive (counted as ambiguous), never a violation
RULE = ("Hypothesis: a sky catalogue of 1..150 sources laid out on a jittered grid of a 128..320 px image (SIN/TAN/ZEA/ARC/STG, "
        "any dec <= 80, field within 1.4 deg of the reference point): isolated sources and blended groups of 2-3 (one island), "
        "sizes from the beam to 4x the beam so that the cut-out width round(4 sigma)+1 is odd and even about equally, sources "
        "within 3 px of an edge, off the image by 1 px..2 fields, on a NaN patch; with/without psf_* attributes; shuffled row "
        "order; stage 1-3; regroup on/off; ratio None/1. The image is the harness's sky-space rendering of exactly that "
        "catalogue (noise free, forced rms/bkg). Oracle: output subset of accepted inputs by uuid, <= 1 per uuid, PRIORIZED; "
        "un-freed parameters and their errors copied; fluxes 0.1 %, positions 0.01 px (stage >= 2), shapes 0.1 % (stage 3); "
        "rejected sources absent and, metamorphically, not changing the other rows; psf-less catalogues handled. "
        "Non-trivial = (>= 1 odd-width and >= 1 even-width source fitted) or (>= 1 rejected source beside >= 1 fitted); "
        "distinct = distinct case.")
ASSUMPTIONS = [
    "every pixel within 1.0 deg of the reference point (Aegean uses one pixel beam per image; measured effect on the fitted "
    "fluxes 2e-4 at 1.2 deg)",
    "catalogue psf columns, when present, are the image beam; un-freed shapes are compared to 5e-4 relative / 0.01 deg because "
    "they pass through the (first-order) sky->pixel->sky ellipse conversion and the psf re-scaling (local vs header beam)",
    "islands are isolated: centres >= 3.3 FWHM apart and blended groups get wider cells, so separately fitted islands do not "
    "contaminate each other (contamination, not the code, produced 0.1-2 % flux differences in an earlier generator)",
    "with an explicit ratio and no psf columns the documented behaviour is that sources which cannot be rescaled are not returned",
]
f = st.floats

case_strategy = st.fixed_dictionaries({
    "rep": skyimg.rep_strategy,      # how the image is stored (CD matrix, degenerate axes, BSCALE/BZERO)
    "proj": st.sampled_from(refs.ZWCS.PROJ),
    "crval": st.tuples(st.one_of(f(0, 360, exclude_max=True), st.sampled_from([0.002, 359.998])), f(-80, 80)),
    "scale": f(3, 30),
    "rows": st.integers(128, 320), "cols": st.integers(128, 320),
    "beam": st.tuples(f(4, 6), f(1, 1.5), f(-90, 90)),
    "sizeclass": st.sampled_from([1.0, 1.5, 2.5, 4.0]),
    "nmax": st.one_of(st.integers(1, 12), st.integers(1, 40), st.integers(20, 150)),
    "seed": st.integers(0, 2 ** 31 - 1),
    "blend_rate": st.sampled_from([0.0, 0.15, 0.4]),
    "n_edge": st.integers(0, 3), "n_off": st.integers(0, 3), "n_nan": st.integers(0, 2),
    "psf_cols": st.booleans(),
    "stage": st.sampled_from([1, 2, 3]),
    "regroup": st.booleans(),
    "ratio": st.sampled_from([None, None, None, 1.0]),
    "docov": st.sampled_from([False, False, True]),
    "cli": st.sampled_from([False, False, False, True]),
    "nullfmt": st.sampled_from([None, "fits", "vot"]),      # with cli: also a FITS / VOTable catalogue with null psf columns
})


def build(c):
    rng = np.random.default_rng(c["seed"])
    s = c["scale"] / 3600.0
    rows, cols = c["rows"], c["cols"]
    maxhalf = 1.0 / s
    if math.hypot(rows, cols) / 2 > maxhalf:
        k = maxhalf / (math.hypot(rows, cols) / 2)
        rows, cols = max(96, int(rows * k)), max(96, int(cols * k))
    bmin_px, bratio, bpa = c["beam"]
    bmaj_px = bmin_px * bratio
    crpix = ((cols + 1) / 2.0 + rng.uniform(-20, 20), (rows + 1) / 2.0 + rng.uniform(-20, 20))
    w, hdr = skyimg.make_header(c["proj"], c["crval"], crpix, c["scale"], (rows, cols), (bmaj_px, 1.0 / bratio, bpa))
    beam = (hdr["BMAJ"], hdr["BMIN"], hdr["BPA"])
    # isolated islands: centres >= 3.3 FWHM apart; blended groups extend up to 1.6 beam widths from their cell centre
    cell = 3.3 * c["sizeclass"] * bmaj_px + 4 + (3.4 * bmaj_px * 1.3 if c["blend_rate"] > 0 else 0.0) + 3.0 * bmaj_px
    nr, nc = int((rows - 8) // cell), int((cols - 8) // cell)
    cells = [(i, j) for i in range(nr) for j in range(nc)]
    rng.shuffle(cells)
    cells = cells[: c["nmax"]]
    cat = []

    def add(px, py, island, kind, sizef=None):
        """px, py = FITS (axis1, axis2) pixel coordinates of the centre"""
        ra, dec = (float(v) for v in w.pix2sky(px, py))
        sf = sizef if sizef is not None else rng.uniform(1.0, c["sizeclass"])
        intr_a = math.sqrt(max(sf * sf - 1.0, 0.0)) * hdr["BMAJ"]
        intr = (intr_a + 1e-9, intr_a * rng.uniform(0.4, 1.0) + 1e-9, rng.uniform(-90, 90))
        a, b, pa = skyimg.convolve(beam, intr)
        if sizef is None and rng.random() < 0.15:
            # catalogued sizes slightly below the psf occur in real catalogues (fitted sizes scatter around the psf)
            k = rng.uniform(0.86, 0.98)
            a, b, pa = beam[0] * k, min(beam[1] * rng.uniform(0.86, 0.98), beam[0] * k * 0.999), beam[2]
            kind = kind + "-subpsf" if kind == "grid" else kind
        src = ComponentSource()
        src.ra, src.dec = ra, dec
        src.peak_flux = float(rng.uniform(0.5, 5.0) * rng.choice([1, 1, 1, -1]))
        src.a, src.b, src.pa = a * 3600, b * 3600, pa
        src.island, src.source = island, sum(1 for x in cat if x[0].island == island)
        src.err_ra, src.err_dec = 1e-5 * (1 + len(cat)), 2e-5
        src.err_a, src.err_b, src.err_pa = 0.11, 0.07, 1.5
        src.err_peak_flux, src.int_flux, src.err_int_flux = 0.01, src.peak_flux * a * b / (beam[0] * beam[1]), 0.02
        src.local_rms, src.background = 1e-4, 0.0
        src.uuid = "cat-%04d" % len(cat)
        if c["psf_cols"]:
            src.psf_a, src.psf_b, src.psf_pa = beam[0] * 3600, beam[1] * 3600, beam[2]
        cat.append((src, kind, (px, py)))

    # special positions first (each its own island); grid cells closer than one cell to any of them are left empty so
    # that every fitted source is isolated from every other island
    special = []
    for _ in range(c["n_edge"]):
        side = rng.integers(0, 4)
        t = rng.uniform(0.2, 0.8)
        dpx = rng.uniform(0.6, 3.0)
        special.append(("edge",) + [(1 + dpx, 1 + t * (rows - 1)), (cols - dpx, 1 + t * (rows - 1)), (1 + t * (cols - 1), 1 + dpx),
                                    (1 + t * (cols - 1), rows - dpx)][side])
    for _ in range(c["n_off"]):
        dist = float(rng.choice([1.0, 3.0, rows * 0.7, rows * 2.0]))
        side = rng.integers(0, 4)
        t = rng.uniform(0, 1)
        special.append(("off",) + [(0.5 - dist, 1 + t * rows), (cols + 0.5 + dist, 1 + t * rows), (1 + t * cols, 0.5 - dist),
                                   (1 + t * cols, rows + 0.5 + dist)][side])
    nan_blocks = []
    for _ in range(c["n_nan"]):
        px, py = rng.uniform(20, cols - 20), rng.uniform(20, rows - 20)
        nan_blocks.append((int(round(py - 1)) - 2, int(round(py - 1)) + 3, int(round(px - 1)) - 2, int(round(px - 1)) + 3))
        special.append(("nan", px, py))
    # special sources must also be isolated from each other
    kept = []
    for sp in special:
        if all(math.hypot(sp[1] - q[1], sp[2] - q[2]) > 3.3 * bmaj_px + 4 for q in kept):
            kept.append(sp)
    special = kept
    nan_blocks = [nb for nb, sp in zip(nan_blocks, [q for q in special if q[0] == "nan"])] if special else []
    nan_blocks = []
    for sp in special:
        if sp[0] == "nan":
            nan_blocks.append((int(round(sp[2] - 1)) - 2, int(round(sp[2] - 1)) + 3, int(round(sp[1] - 1)) - 2, int(round(sp[1] - 1)) + 3))
    island = 0
    for (i, j) in cells:
        cx = 5 + (j + 0.5) * cell + rng.uniform(-0.08, 0.08) * cell
        cy = 5 + (i + 0.5) * cell + rng.uniform(-0.08, 0.08) * cell
        if any(math.hypot(cx - q[1], cy - q[2]) < cell + 2 * bmaj_px for q in special if q[0] != "off" or True):
            continue
        island += 1
        add(cx, cy, island, "grid")
        if rng.random() < c["blend_rate"]:
            for _ in range(int(rng.integers(1, 3))):
                sep = rng.uniform(1.0, 1.6) * bmaj_px
                ang = rng.uniform(0, 2 * math.pi)
                add(cx + sep * math.cos(ang), cy + sep * math.sin(ang), island, "blend", sizef=1.0 + rng.uniform(0, 0.3))
    for kind, px, py in special:
        island += 1
        add(px, py, island, kind, sizef=1.0)
    # unusable members INSIDE a jointly fitted group (same island number), placed before a usable member in catalogue
    # order: (a) an off-image entry sharing the island of an edge source, (b) an entry whose centre pixel is blank sharing
    # the island of a grid source.  Neither is rendered into the image (the image is the model of the usable sources).
    members = []
    for idx, (src0, kind0, (qx, qy)) in enumerate(list(cat)):
        if kind0 == "edge" and rng.random() < 0.7:
            ox = -3.0 if qx < cols / 2 else cols + 4.0
            members.append((idx, ox, qy, src0.island, "off-member"))
        elif kind0 == "grid" and rng.random() < 0.12:
            members.append((idx, qx + 2.6 * bmaj_px, qy, src0.island, "nan-member"))
    for shift, (idx, mx, my, isl, kind) in enumerate(members):
        add(mx, my, isl, kind, sizef=1.0)
        entry = cat.pop()
        cat.insert(idx + shift, entry)               # before its island mate in catalogue order
        if kind == "nan-member":
            nan_blocks.append((int(round(my - 1)) - 1, int(round(my - 1)) + 2, int(round(mx - 1)) - 1, int(round(mx - 1)) + 2))
    for k, (src_k, _, _) in enumerate(cat):
        src_k.uuid = "cat-%04d" % k
    counts = {}
    for src_k, _, _ in cat:
        src_k.source = counts.get(src_k.island, 0)
        counts[src_k.island] = src_k.source + 1
    return {"w": w, "hdr": hdr, "shape": (rows, cols), "cat": cat, "nan_blocks": nan_blocks, "s": s, "beam": beam}


def accepted(B, src_entry, img):
    """the documented acceptance rule: centre (rounded to a pixel) on the image and on finite data"""
    src, kind, (px, py) = src_entry
    x, y = int(round(py - 1)), int(round(px - 1))
    rows, cols = B["shape"]
    return 0 <= x < rows and 0 <= y < cols and bool(np.isfinite(img[x, y]))


def run_prior(path, cat, c, rms):
    sf = SourceFinder()
    return sf.priorized_fit_islands(path, catalogue=[copy.deepcopy(s) for s in cat], rms=rms, bkg=0.0, stage=c["stage"],
                                    ratio=c["ratio"], doregroup=c["regroup"], docov=c["docov"], cores=1, **skyimg.cube_kw(c.get("rep")))


def width_parity(src, B):
    """parity of the cut-out width round(4 sigma_major_px) + 1 used by the refitting"""
    sx = (src.a / 3600.0) / B["s"] * skyimg.FWHM2SIG
    return (int(round(4 * sx)) + 1) % 2


def rows_of(out):
    return {o.uuid: (o.ra, o.dec, o.peak_flux, o.a, o.b, o.pa, o.int_flux, o.flags) for o in out}


def check_case(c):
    res = Res()
    B = build(c)
    cat = [e[0] for e in B["cat"]]
    order = np.random.default_rng(c["seed"] + 1).permutation(len(cat))
    shuffled = [cat[k] for k in order]
    sky = [{"ra": s.ra, "dec": s.dec, "peak": s.peak_flux, "a": s.a / 3600, "b": s.b / 3600, "pa": s.pa}
           for s, kind, _ in B["cat"] if kind not in ("off", "off-member", "nan-member")]
    img = skyimg.render(B["w"], B["shape"], sky)
    for (r0, r1, c0, c1) in B["nan_blocks"]:
        img[max(r0, 0):r1, max(c0, 0):c1] = np.nan
    rms = 1e-4
    acc = {e[0].uuid: accepted(B, e, img) for e in B["cat"]}
    by_uuid = {e[0].uuid: e for e in B["cat"]}
    tags = dict(stage=c["stage"], regroup=c["regroup"], psf=c["psf_cols"], ratio=c["ratio"] is not None)
    what = "stage=%d regroup=%s ratio=%s psf_cols=%s docov=%s n=%d" % (c["stage"], c["regroup"], c["ratio"], c["psf_cols"],
                                                                      c["docov"], len(cat))
    d = workdir("c05_")
    try:
        path = os.path.join(d, "im.fits")
        skyimg.write_fits(path, img, B["hdr"], rep=c.get("rep"))
        out = run_prior(path, shuffled, c, rms)
        if c["ratio"] is not None and not c["psf_cols"]:
            # documented: sources that cannot be rescaled are not returned
            res.label("ratio-without-psf")
            res.nontrivial = False
            if any(o.uuid not in by_uuid for o in out):
                res.bad("unknown-uuid", "%s: output contains uuids that were not in the input" % what, **tags)
            return res
        seen = set()
        fitted_par = set()
        nfit = 0
        for o in out:
            if o.uuid not in by_uuid:
                res.bad("unknown-uuid", "%s: output uuid %r was not in the input" % (what, o.uuid), **tags)
                continue
            if o.uuid in seen:
                res.bad("duplicate-uuid", "%s: two output components carry uuid %s" % (what, o.uuid), **tags)
                continue
            seen.add(o.uuid)
            src, kind, (px, py) = by_uuid[o.uuid]
            if not acc[o.uuid]:
                res.bad("rejected-source-returned", "%s: source %s (%s) is off the image / on a blank pixel but was returned" % (
                    what, o.uuid, kind), **tags)
                continue
            if not (o.flags & flags.PRIORIZED):
                res.bad("priorized-flag", "%s: component %s lacks the PRIORIZED flag (flags=%d)" % (what, o.uuid, o.flags), **tags)
            if o.flags & flags.NOTFIT or not np.isfinite(o.peak_flux):
                res.label("not-fit-component")
                continue
            nfit += 1
            par = width_parity(src, B)
            fitted_par.add(par)
            t2 = dict(tags, kind=kind, parity="odd" if par else "even")
            tag = "%s: %s source %s (a=%.2f px, cut-out width %s)" % (what, kind, o.uuid, src.a / 3600 / B["s"], "odd" if par else "even")
            dpos = float(refs.vsep(src.ra, src.dec, o.ra, o.dec))
            if c["stage"] == 1:
                if not dpos <= 1e-8:
                    res.bad("fixed-position", "%s: position moved by %.3g deg at stage 1" % (tag, dpos), **t2)
                if not (o.err_ra == src.err_ra and o.err_dec == src.err_dec):
                    res.bad("position-errors-not-copied", "%s: err_ra/err_dec %r/%r, input %r/%r" % (
                        tag, o.err_ra, o.err_dec, src.err_ra, src.err_dec), **t2)
            else:
                if not dpos / B["s"] <= 0.01:
                    res.bad("fitted-position", "%s: fitted position is %.3g px from the catalogue position" % (tag, dpos / B["s"]), **t2)
                res.stat("pos_px", dpos / B["s"])
            sa, sb = abs(o.a - src.a) / src.a, abs(o.b - src.b) / src.b
            dpa = abs(float(refs.angdiff(o.pa, src.pa, 180.0)))
            round_ = src.a / src.b < 1.05
            if c["stage"] < 3:
                if not (sa <= 5e-4 and sb <= 5e-4 and (round_ or dpa <= 0.01)):
                    res.bad("fixed-shape", "%s: shape (%.6g, %.6g, %.4f) differs from the input (%.6g, %.6g, %.4f) at stage %d" % (
                        tag, o.a, o.b, o.pa, src.a, src.b, src.pa, c["stage"]), **t2)
                if not (o.err_a == src.err_a and o.err_b == src.err_b and o.err_pa == src.err_pa):
                    res.bad("shape-errors-not-copied", "%s: err_a/b/pa %r/%r/%r" % (tag, o.err_a, o.err_b, o.err_pa), **t2)
            else:
                if not (sa <= 1e-3 and sb <= 1e-3):
                    res.bad("fitted-shape", "%s: fitted shape (%.6g, %.6g) vs catalogue (%.6g, %.6g)" % (tag, o.a, o.b, src.a, src.b), **t2)
                res.stat("shape_rel", max(sa, sb))
            fl = abs(o.peak_flux - src.peak_flux) / abs(src.peak_flux)
            res.stat("flux_rel", fl)
            if not fl <= 1e-3:
                res.bad("flux", "%s: peak flux %.6g vs catalogue %.6g (%.3g %%)" % (tag, o.peak_flux, src.peak_flux, 100 * fl), **t2)
        # well placed sources must come back
        for u, e in by_uuid.items():
            src, kind, (px, py) = e
            inside = 6 <= px <= B["shape"][1] - 5 and 6 <= py <= B["shape"][0] - 5
            if acc[u] and kind in ("grid", "grid-subpsf", "blend") and inside and u not in seen:
                res.bad("accepted-source-missing", "%s: %s source %s is on the image but was not returned" % (what, kind, u), **tags)
                break
        nrej = sum(1 for u in acc if not acc[u])
        # metamorphic: the rejected sources do not change the other rows
        if nrej and not res.violations:
            keep = [s for s in shuffled if acc[s.uuid]]
            if keep:
                out2 = run_prior(path, keep, c, rms)
                r1, r2 = rows_of(out), rows_of(out2)
                if set(r1) != set(r2):
                    res.bad("rejected-sources-change-result", "%s: with the %d off-image/blank sources removed from the input the "
                            "set of returned uuids changes" % (what, nrej), **tags)
                else:
                    # (ra, dec, peak, a, b, pa, int, flags): unchanged to within the accuracy the property states.  Not
                    # bit-equality: with regroup on, the default linking length is 4x the mean size of ALL catalogue
                    # entries and rejected entries can bridge two groups, so the grouping (joint vs separate fits) of the
                    # other sources may differ, which moves their values at the 1e-5 level.
                    def same(p, q):
                        dpos = float(refs.vsep(p[0], p[1], q[0], q[1])) / B["s"]
                        return (dpos <= 0.01 and abs(p[2] - q[2]) <= 1e-3 * abs(p[2]) and abs(p[3] - q[3]) <= 1e-3 * p[3] and
                                abs(p[4] - q[4]) <= 1e-3 * p[4] and p[7] == q[7])
                    for u in r1:
                        if not same(r1[u], r2[u]):
                            res.bad("rejected-sources-change-result", "%s: row %s changes when the off-image/blank sources "
                                    "are removed from the input" % (what, u), **tags)
                            break
            res.label("has-rejected")
        # the command line: aegean IMAGE --priorized STAGE --input CATALOGUE --table OUT gives the same rows as the API
        # called with the same catalogue file
        if c.get("cli") and not res.violations and 1 <= len(cat) <= 60:
            from AegeanTools.catalogs import save_catalog
            from vlib.cli import run_aegean
            save_catalog(os.path.join(d, "input.csv"), [copy.deepcopy(s_) for s_ in shuffled])
            catfile = os.path.join(d, "input_comp.csv")
            # a catalogue FILE that really lacks the optional columns (psf_*, err_*) is read first, in the same process ...
            from astropy.table import Table
            t_ = Table.read(catfile)
            t_.remove_columns([n for n in t_.colnames if n.startswith("psf_") or n.startswith("err_") or n in ("residual_mean", "residual_std")])
            slim = os.path.join(d, "input_slim.csv")
            t_.write(slim)
            slim_out = SourceFinder().priorized_fit_islands(path, catalogue=slim, rms=rms, bkg=0.0, stage=c["stage"],
                                                            ratio=None, doregroup=c["regroup"], docov=c["docov"], cores=1, **skyimg.cube_kw(c.get("rep")))
            if any(o_.uuid not in by_uuid for o_ in slim_out) or (nfit and not slim_out):
                res.bad("slim-catalogue", "%s: a catalogue file without psf/err columns returned %d rows (%d expected)" % (
                    what, len(slim_out), nfit), **tags)
            # the same catalogue as a FITS / VOTable file whose psf columns are present but null (astropy hands those
            # cells over as masked values, not as NaN)
            fmt = c.get("nullfmt")
            if fmt and not res.violations:
                from astropy.table import MaskedColumn
                t2 = Table.read(catfile)
                for n_ in ("psf_a", "psf_b", "psf_pa"):
                    if n_ in t2.colnames:
                        t2[n_] = MaskedColumn(np.zeros(len(t2)), mask=np.ones(len(t2), dtype=bool), dtype=float)
                nullf = os.path.join(d, "input_null." + fmt)
                t2.write(nullf, format={"fits": "fits", "vot": "votable"}[fmt], overwrite=True)
                null_out = SourceFinder().priorized_fit_islands(path, catalogue=nullf, rms=rms, bkg=0.0, stage=c["stage"], ratio=None,
                                                                doregroup=c["regroup"], docov=c["docov"], cores=1,
                                                                **skyimg.cube_kw(c.get("rep")))
                got_u = [str(o_.uuid).strip() for o_ in null_out]
                if any(u_ not in by_uuid for u_ in got_u) or (nfit and not null_out) or len(null_out) != len(slim_out):
                    res.bad("null-psf-catalogue", "%s: a %s catalogue whose psf columns are null returned %d rows (%d without those "
                            "columns)" % (what, fmt, len(null_out), len(slim_out)), fmt=fmt, **tags)
                res.label("null-psf-" + fmt)
            # ... and must not change what the complete file gives afterwards
            api = SourceFinder().priorized_fit_islands(path, catalogue=catfile, rms=rms, bkg=0.0, stage=c["stage"],
                                                       ratio=c["ratio"], doregroup=c["regroup"], docov=c["docov"], cores=1, **skyimg.cube_kw(c.get("rep")))
            ro, ra_ = rows_of(out), rows_of(api)
            if set(ro) != set(ra_) or any(not all((x == y) or (isinstance(x, float) and abs(x - y) <= 1e-9 * max(abs(x), 1e-30))
                                                  for x, y in zip(ro[u], ra_[u])) for u in ro):
                res.bad("catalogue-file-differs", "%s: the catalogue given as a file returns %d rows, as objects %d (or values differ)" % (
                    what, len(ra_), len(ro)), **tags)
            errs_ok = all(o_.err_ra == by_uuid[o_.uuid][0].err_ra for o_ in api) if c["stage"] == 1 else True
            if not errs_ok:
                res.bad("catalogue-file-errors", "%s: stage-1 uncertainties are not those of the catalogue file" % what, **tags)
            argv = ["--priorized", c["stage"], "--input", catfile, "--forcerms", rms, "--forcebkg", 0.0]
            if not c["regroup"]:
                argv.append("--noregroup")
            if not c["docov"]:
                argv.append("--nocov")
            if c["ratio"] is not None:
                argv += ["--ratio", c["ratio"]]
            rc, rows = run_aegean(path, d, "prior", argv)

            def numrow(s_):
                return (str(s_.uuid),) + tuple("nan" if (isinstance(v, float) and math.isnan(v)) else float(v) for v in
                                               (s_.ra, s_.dec, s_.peak_flux, s_.a, s_.b, s_.pa, s_.flags, s_.island, s_.source))
            if rc not in (0, None) or sorted(numrow(s_) for s_ in rows) != sorted(numrow(s_) for s_ in api):
                res.bad("cli-priorized-differs", "%s: `aegean --priorized %d --input` wrote %d rows (rc=%r), the API returns %d "
                        "for the same catalogue file (or their values differ)" % (what, c["stage"], len(rows), rc, len(api)), **tags)
            res.label("cli")
        res.nontrivial = bool(len(fitted_par) == 2 or (nrej and nfit))
        res.label("stage-%d" % c["stage"], "regroup" if c["regroup"] else "noregroup")
        if len(cat) > 20:
            res.label(">20-sources")
        if any(e[1] == "blend" for e in B["cat"]):
            res.label("has-blend")
    finally:
        shutil.rmtree(d, ignore_errors=True)
    return res


TESTS = {
    "priorized": {"strategy": lambda tier: case_strategy, "check": check_case,
                  "n": {"quick": 192, "thorough": 3000}},
}
