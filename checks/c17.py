"""C17 - spherical geometry and sexagesimal primitives (AegeanTools/angle_tools.py)"""
import math
import re

import numpy as np
from hypothesis import strategies as st

from AegeanTools import angle_tools as at
from vlib import refs
from vlib.core import Res

PROP = "C17"
SHARDS = {"quick": 8, "thorough": 16}
RULE = ("Hypothesis generators: point pairs built on the sphere by the harness's own destination formula "
        "(start point uniform / at a pole / at the RA wrap; separation log-uniform 1e-9..180 deg, or within 1e-3..1e-9 "
        "deg of antipodal, or exactly 0), a third uniform point for the triangle inequality; (ra,dec,r,t) for translate; "
        "angles for formatting: uniform plus k/3600 +- 10^-j values that carry into the next second/minute/degree/hour. "
        "Oracles: atan2(|uxv|,u.v) separation, north/east-basis position angle, string field ranges and parse-back. "
        "Non-trivial = separation < 1e-6 deg or > 179.999 deg, start within 1 deg of a pole or the RA wrap, "
        "or an input within 0.005 arcsec (0.005 s) of a minute boundary; distinct = distinct generated case.")
ASSUMPTIONS = [
    "bearing/translate comparisons are made on the displacement they imply (|d bearing| * sin r), because a bearing is "
    "ill-conditioned as 1/sin r; start points within 1e-6 deg of a pole are not judged for bearing",
    "translate tolerance = 1e-9 deg plus the float64 conditioning of any (ra,dec) representation near a pole "
    "(8 eps / cos(dec_out) rad)",
]

TOL = 1e-9  # degrees, from the property statement
EPS = np.finfo(float).eps

# ---------------------------------------------------------------- strategies
f = st.floats


def point():
    uniform = st.tuples(f(0, 360, exclude_max=True), f(-1, 1)).map(
        lambda t: (t[0], math.degrees(math.asin(t[1]))))
    pole = st.tuples(f(0, 360, exclude_max=True),
                     st.sampled_from([90.0, -90.0, 90 - 1e-7, -90 + 1e-7, 89.5, -89.5, 89.99, -89.999]))
    wrap = st.tuples(st.sampled_from([0.0, 1e-9, 359.999999999, 360 - 1e-6, 1e-5, 359.9, 0.05]),
                     f(-89, 89))
    return st.one_of(uniform, uniform, pole, wrap)


def separation():
    logsep = f(-9, math.log10(180)).map(lambda e: 10 ** e)
    anti = f(-9, -3).map(lambda e: 180 - 10 ** e)
    mid = f(1e-3, 179.9)
    return st.one_of(logsep, logsep, anti, mid, st.sampled_from([0.0, 180.0, 90.0]))


pair_case = st.fixed_dictionaries({
    "p1": point(), "sep": separation(), "t": f(0, 360, exclude_max=True), "p3": point()})

translate_case = st.fixed_dictionaries({
    "p": point(),
    "r": st.one_of(f(0, 180, exclude_max=True), f(-9, 2.25).map(lambda e: min(10 ** e, 179.999999)),
                   f(-9, -2).map(lambda e: 180 - 10 ** e)),
    "t": st.one_of(f(0, 360, exclude_max=True), st.sampled_from([0.0, 90.0, 180.0, 270.0])),
})


def carry_values(limit_units):
    """values k/3600 (+- tiny) in arcsec-like units which round up at the 2nd decimal of the seconds"""
    k = st.integers(0, limit_units)          # whole seconds
    delta = st.one_of(st.sampled_from([0.0, -1e-8, -1e-10, -0.004, -0.005, -0.0050001, -0.0049999, 0.004999, -1e-6]),
                      f(-0.006, 0.006))
    return st.tuples(k, delta)


dms_case = st.one_of(
    st.fixed_dictionaries({"kind": st.just("uniform"), "x": f(-90, 90)}),
    st.fixed_dictionaries({"kind": st.just("carry"), "ks": carry_values(90 * 3600),
                           "minute": st.booleans(), "neg": st.booleans()}),
    st.fixed_dictionaries({"kind": st.just("special"), "x": st.sampled_from(
        [0.0, -0.0, 90.0, -90.0, -0.5, 0.5, -1e-7, 1e-7, -0.001, 89.999999999, -89.999999999, 10.99999999,
         float("nan"), float("inf"), float("-inf")])}),
)

hms_case = st.one_of(
    st.fixed_dictionaries({"kind": st.just("uniform"), "x": f(0, 360, exclude_max=True)}),
    st.fixed_dictionaries({"kind": st.just("carry"), "ks": carry_values(24 * 3600),
                           "minute": st.booleans()}),
    st.fixed_dictionaries({"kind": st.just("special"), "x": st.sampled_from(
        [0.0, 359.99999999, 359.999999999999, 15.0, 14.99999999, 179.99999999, 1e-9,
         float("nan"), float("inf")])}),
)


# -------------------------------------------------------------------- checks
def check_pair(c):
    r = Res()
    ra1, dec1 = c["p1"]
    sep, t = c["sep"], c["t"]
    ra2, dec2 = (float(v) for v in refs.vdest(ra1, dec1, sep, t))
    if sep == 0.0:
        ra2, dec2 = ra1, dec1
    ra3, dec3 = c["p3"]
    true = float(refs.vsep(ra1, dec1, ra2, dec2))
    g12 = float(at.gcd(ra1, dec1, ra2, dec2))
    g21 = float(at.gcd(ra2, dec2, ra1, dec1))
    tags = {}
    if true > 179.999:
        tags["near_antipodal"] = True
    if not (abs(g12 - g21) <= 1e-12):
        r.bad("gcd-symmetric", "gcd(p1,p2)=%r gcd(p2,p1)=%r" % (g12, g21), **tags)
    if not (0.0 <= g12 <= 180.0 + 1e-12):
        r.bad("gcd-range", "gcd=%r" % g12, **tags)
    if (ra1, dec1) == (ra2, dec2):
        if g12 != 0.0:
            r.bad("gcd-identity", "gcd of identical points = %r" % g12)
    elif true >= 1e-9 and not g12 > 0:
        r.bad("gcd-identity", "distinct points %r apart have gcd=%r" % (true, g12))
    if not (abs(g12 - true) <= TOL):
        r.bad("gcd-vs-vector", "gcd=%.15g vector=%.15g diff=%.3g (p1=%r p2=%r)" % (
            g12, true, g12 - true, (ra1, dec1), (ra2, dec2)), **tags)
    # triangle inequality
    g13 = float(at.gcd(ra1, dec1, ra3, dec3))
    g32 = float(at.gcd(ra3, dec3, ra2, dec2))
    if not (g12 <= g13 + g32 + TOL):
        r.bad("gcd-triangle", "d12=%r > d13+d32=%r" % (g12, g13 + g32), **tags)
    # bearing, judged as the displacement it implies
    polar = abs(abs(dec1) - 90) < 1e-6
    if not polar and 0 < true < 180:
        b = float(at.bear(ra1, dec1, ra2, dec2))
        vb = float(refs.vbear(ra1, dec1, ra2, dec2))
        d = abs(float(refs.angdiff(b, vb))) * math.sin(math.radians(true))
        if not d <= TOL:
            r.bad("bear-vs-vector", "bear=%r vector=%r displacement=%.3g deg" % (b, vb, d))
        r.stat("bear_disp", d)
    # array form = scalar form
    args = [np.array([ra1, ra3]), np.array([dec1, dec3]), np.array([ra2, ra2]), np.array([dec2, dec2])]
    keep = [a.copy() for a in args]
    A = at.gcd(*args)
    if not (np.shape(A) == (2,) and abs(A[0] - g12) <= 1e-12 and abs(A[1] - g32) <= 1e-12):
        r.bad("gcd-array", "array call gave %r, scalar calls %r" % (A, (g12, g32)))
    B = at.bear(*args)
    # the relations are about the caller's points: arrays handed in must still hold them afterwards
    if not all(np.array_equal(a, k) for a, k in zip(args, keep)):
        r.bad("input-modified", "gcd/bear changed an array argument: %r -> %r" % ([k.tolist() for k in keep], [a.tolist() for a in args]))
    b0 = float(at.bear(ra1, dec1, ra2, dec2))
    if not (np.shape(B) == (2,) and (abs(B[0] - b0) <= 1e-12)):
        r.bad("bear-array", "array call gave %r, scalar %r" % (B, b0))
    r.stat("gcd_err", g12 - true)
    near_wrap = min(ra1, 360 - ra1) < 1.0
    r.nontrivial = bool(true < 1e-6 or true > 179.999 or abs(dec1) > 89 or near_wrap)
    if true < 1e-6:
        r.label("sep<1e-6")
    if true > 179.999:
        r.label("sep>179.999")
    if abs(dec1) > 89:
        r.label("near-pole")
    if near_wrap:
        r.label("ra-wrap")
    return r


def check_translate(c):
    res = Res()
    ra, dec = c["p"]
    rr, t = c["r"], c["t"]
    ra2, dec2 = at.translate(ra, dec, rr, t)
    ra2, dec2 = float(ra2), float(dec2)
    if not (math.isfinite(ra2) and math.isfinite(dec2) and abs(dec2) <= 90 + 1e-12):
        res.bad("translate-finite", "translate(%r,%r,%r,%r) -> %r" % (ra, dec, rr, t, (ra2, dec2)))
        return res
    cond = 8 * EPS / max(math.cos(math.radians(min(abs(dec2), 90.0))), 1e-300) * refs.R2D
    cond += 8 * EPS / max(math.cos(math.radians(min(abs(dec), 90.0))), 1e-300) * refs.R2D
    tol = TOL + min(cond, 1.0)
    d = float(refs.vsep(ra, dec, ra2, dec2))
    if not abs(d - rr) <= tol:
        res.bad("translate-distance", "translate(%r,%r,r=%r,t=%r) -> %r is %.15g away (diff %.3g, tol %.3g)" % (
            ra, dec, rr, t, (ra2, dec2), d, d - rr, tol))
    polar = abs(abs(dec) - 90) < 1e-6
    if not polar and 0 < rr < 180:
        vb = float(refs.vbear(ra, dec, ra2, dec2))
        disp = abs(float(refs.angdiff(vb, t))) * math.sin(math.radians(rr))
        if not disp <= tol:
            res.bad("translate-bearing", "translate(%r,%r,r=%r,t=%r) -> %r has initial bearing %r (displacement %.3g, tol %.3g)" % (
                ra, dec, rr, t, (ra2, dec2), vb, disp, tol))
        res.stat("translate_bear_disp", disp)
    res.stat("translate_dist_err", d - rr)
    # array form
    args = [np.array([ra, ra]), np.array([dec, dec]), np.array([rr, rr]), np.array([t, t])]
    keep = [a.copy() for a in args]
    A = at.translate(*args)
    if not (np.shape(A) == (2, 2) and abs(A[0][0] - ra2) <= 1e-12 and abs(A[1][1] - dec2) <= 1e-12):
        res.bad("translate-array", "array call gave %r, scalar %r" % (A, (ra2, dec2)))
    # "a point at distance r and bearing t FROM THE START": the start (and r, t) handed in as arrays must survive the call,
    # and the result must be measured from it
    if not all(np.array_equal(a, k) for a, k in zip(args, keep)):
        res.bad("input-modified", "translate changed an array argument: %r -> %r" % ([k.tolist() for k in keep], [a.tolist() for a in args]))
    elif np.shape(A) == (2, 2) and 0 < rr < 180:
        back = at.gcd(args[0], args[1], np.asarray(A[0]), np.asarray(A[1]))
        if not np.all(np.abs(np.asarray(back, dtype=float) - rr) <= tol + 1e-9):
            res.bad("translate-array-distance", "gcd(start arrays, translate(start arrays, r=%r, t=%r)) = %r" % (rr, t, back))
    res.nontrivial = bool(rr < 1e-6 or rr > 179.999 or abs(dec) > 89 or min(ra, 360 - ra) < 1.0)
    if rr < 1e-6:
        res.label("r<1e-6")
    if rr > 179.999:
        res.label("r>179.999")
    return res


DMS = re.compile(r"^([+-])(\d{2,}):(\d{2}):(\d{2}\.\d{2})$")
HMS = re.compile(r"^(\d{2}):(\d{2}):(\d{2}\.\d{2})$")


def _value(c, hours):
    if c["kind"] != "carry":
        return c["x"], None
    k, delta = c["ks"]
    if c.get("minute"):
        k = (k // 60) * 60
    secs = k + delta
    x = secs / 3600.0
    if hours:
        x *= 15.0
        x = min(max(x, 0.0), math.nextafter(360.0, 0))
    else:
        x = min(max(x, 0.0), 90.0)
        if c.get("neg"):
            x = -x
    return x, None


def _near_minute(x, hours):
    """input within half a printed unit (0.005 arcsec / 0.005 s) below or above a minute boundary"""
    secs = abs(x) * (240.0 if hours else 3600.0)
    d = secs % 60.0
    return bool(min(d, 60.0 - d) <= 0.005 * (1 + 1e-9)) and secs > 1


def check_dms(c):
    r = Res()
    x, _ = _value(c, False)
    boundary = math.isfinite(x) and _near_minute(x, False)
    s = at.dec2dms(x)
    if not math.isfinite(x):
        if s != "XX:XX:XX.XX":
            r.bad("dms-nonfinite", "dec2dms(%r) = %r" % (x, s))
        r.label("nonfinite")
        return r
    m = DMS.match(s)
    if not m:
        r.bad("dms-format", "dec2dms(%r) = %r" % (x, s))
        return r
    sign, dd, mm, ss = m.group(1), int(m.group(2)), int(m.group(3)), float(m.group(4))
    if not (mm < 60 and ss < 60.0 and (dd < 90 or (dd == 90 and mm == 0 and ss == 0.0))):
        r.bad("dms-field-range", "dec2dms(%r) = %r" % (x, s))
    back = at.dec2dec(s)
    half = 0.005 / 3600.0
    if not abs(back - x) <= half * (1 + 1e-6) + 1e-12:
        r.bad("dms-roundtrip", "dec2dec(dec2dms(%r)=%r) = %r, off by %.3g arcsec" % (x, s, back, (back - x) * 3600))
    if x < -half and sign != "-":
        r.bad("dms-sign", "dec2dms(%r) = %r" % (x, s))
    if x > half and sign != "+":
        r.bad("dms-sign", "dec2dms(%r) = %r" % (x, s))
    r.nontrivial = bool(boundary)
    if boundary:
        r.label("minute-boundary")
    return r


def check_hms(c):
    r = Res()
    x, _ = _value(c, True)
    boundary = math.isfinite(x) and _near_minute(x, True)
    s = at.dec2hms(x)
    if not math.isfinite(x):
        if s != "XX:XX:XX.XX":
            r.bad("hms-nonfinite", "dec2hms(%r) = %r" % (x, s))
        r.label("nonfinite")
        return r
    m = HMS.match(s)
    if not m:
        r.bad("hms-format", "dec2hms(%r) = %r" % (x, s))
        return r
    hh, mm, ss = int(m.group(1)), int(m.group(2)), float(m.group(3))
    if not (hh < 24 and mm < 60 and ss < 60.0):
        r.bad("hms-field-range", "dec2hms(%r) = %r" % (x, s))
    back = at.ra2dec(s)
    half = 0.005 * 15 / 3600.0
    d = abs(float(refs.angdiff(back, x)))
    if not d <= half * (1 + 1e-6) + 1e-12:
        r.bad("hms-roundtrip", "ra2dec(dec2hms(%r)=%r) = %r, off by %.3g s" % (x, s, back, d * 240))
    r.nontrivial = bool(boundary)
    if boundary:
        r.label("minute-boundary")
    return r


TESTS = {
    "pair": {"strategy": lambda tier: pair_case, "check": check_pair,
             "n": {"quick": 12000, "thorough": 800000}},
    "translate": {"strategy": lambda tier: translate_case, "check": check_translate,
                  "n": {"quick": 8000, "thorough": 400000}},
    "dms": {"strategy": lambda tier: dms_case, "check": check_dms,
            "n": {"quick": 12000, "thorough": 600000}},
    "hms": {"strategy": lambda tier: hms_case, "check": check_hms,
            "n": {"quick": 12000, "thorough": 600000}},
}
