"""C20 - image bands tile the image exactly and keep its astrometry (fits_tools.load_image_band)"""
import os
import shutil
import tempfile

import numpy as np
from astropy.io import fits
from hypothesis import strategies as st

from AegeanTools import fits_tools
from AegeanTools.exceptions import AegeanError
from vlib import refs
from vlib.core import Res, run_check, workdir

PROP = "C20"
SHARDS = {"quick": 8, "thorough": 16}
RULE = ("(a) 'pairs': arithmetic sub-domain rows in 1..20000 x bands n in 1..64 through the real load_image_band on "
        "one-column float32 files whose pixel value is the row number; quick = every pair for which float "
        "rows/n*(i+1) differs from the exact integer quotient for the last band (at-risk pairs, computed by an exact "
        "integer model) plus Hypothesis-drawn random pairs with all n bands loaded; thorough = ALL 1,280,000 pairs "
        "(bands 0, n-1 and one seed-derived middle band each; exhaustive for that sub-domain). "
        "(b) 'content': Hypothesis images rows 1..300 x cols 1..40, 2-D/3-D/4-D with cube index, BSCALE, WCS header, "
        "optionally compressed by fits_tools.compress; every band i of n loaded. (c) 'invalid': bad band specs. "
        "Non-trivial = n >= 2 and rows not a multiple of n; distinct = distinct (rows,n[,layout]).")
ASSUMPTIONS = [
    "images of BITPIX -32, -64, 16 and 32 with optional BSCALE and BZERO cards; band values are compared with BZERO + BSCALE * stored (1e-6 for float32 data, 1e-12 otherwise)",
    "compressed inputs are judged like plain ones (values against the expansion of the file, band header against the "
    "image's astrometry)",
]


# ------------------------------------------------------------------ helpers
def write_rows_file(path, rows, cols=1):
    data = (np.arange(rows * cols, dtype=np.float32)).reshape(rows, cols)
    hdu = fits.PrimaryHDU(data)
    hdu.header["CRPIX2"] = 5.0
    hdu.header["CRPIX1"] = 1.0
    hdu.writeto(path, overwrite=True)
    return data


def band_rows(full_crpix2, data, header):
    """row range of a band recovered from its own header"""
    n = int(header["NAXIS2"])
    r0 = full_crpix2 - header["CRPIX2"]
    return r0, n


def check_pair_bands(path, rows, n, bands, res, full_crpix2=5.0, cols=1):
    """load the listed bands; return {i: (row_min, row_max)} recovered from data values"""
    got = {}
    for i in bands:
        data, hdr = fits_tools.load_image_band(path, band=(i, n))
        data = np.asarray(data)
        if data.ndim != 2 or data.shape[1] != cols:
            res.bad("band-shape", "rows=%d n=%d band %d: data shape %r" % (rows, n, i, data.shape), rows=rows, n=n)
            continue
        k = data.shape[0]
        if k:
            first = int(round(float(data[0, 0]))) // cols
            expect = (np.arange(first * cols, (first + k) * cols, dtype=np.float32)).reshape(k, cols)
            if not np.array_equal(data, expect):
                res.bad("band-values", "rows=%d n=%d band %d: values are not consecutive image rows" % (rows, n, i),
                        rows=rows, n=n)
        else:
            first = None
        r0, hn = band_rows(full_crpix2, data, hdr)
        if hn != k:
            res.bad("band-header-naxis2", "rows=%d n=%d band %d: NAXIS2=%r but %d rows of data" % (rows, n, i, hn, k),
                    rows=rows, n=n)
        if first is not None and r0 != first:
            res.bad("band-header-crpix2", "rows=%d n=%d band %d: header says the band starts at row %r, data start at "
                    "row %d" % (rows, n, i, r0, first), rows=rows, n=n)
        start = first if first is not None else int(r0)
        got[i] = (start, start + k)
    return got


def judge_tiling(got, rows, n, res):
    if 0 in got and got[0][0] != 0:
        res.bad("tiling-start", "rows=%d n=%d: band 0 starts at row %d" % (rows, n, got[0][0]), rows=rows, n=n)
    if n - 1 in got and got[n - 1][1] != rows:
        res.bad("tiling-end", "rows=%d n=%d: last band ends at row %d of %d (rows lost)" % (
            rows, n, got[n - 1][1], rows), rows=rows, n=n)
    for i in sorted(got):
        if i + 1 in got and got[i][1] != got[i + 1][0]:
            res.bad("tiling-consecutive", "rows=%d n=%d: band %d ends at %d, band %d starts at %d" % (
                rows, n, i, got[i][1], i + 1, got[i + 1][0]), rows=rows, n=n)
        if not (0 <= got[i][0] <= got[i][1] <= rows):
            res.bad("tiling-range", "rows=%d n=%d: band %d covers %r" % (rows, n, i, got[i]), rows=rows, n=n)


# ------------------------------------------------ arithmetic sub-domain (pairs)
def at_risk_pairs():
    out = []
    for rows in range(1, 20001):
        for n in range(1, 65):
            if int(rows / n * n) != rows or any(int(rows / n * (i + 1)) != rows * (i + 1) // n for i in (0, n // 2)):
                out.append((rows, n))
    return out


def check_pair_case(c):
    """c = {rows, n, bands: 'all' | list}"""
    res = Res()
    rows, n = c["rows"], c["n"]
    d = workdir("c20p_")
    try:
        path = os.path.join(d, "r.fits")
        write_rows_file(path, rows)
        bands = list(range(n)) if c["bands"] == "all" else c["bands"]
        got = check_pair_bands(path, rows, n, bands, res)
        judge_tiling(got, rows, n, res)
    finally:
        shutil.rmtree(d, ignore_errors=True)
    res.nontrivial = n >= 2 and rows % n != 0
    res.key = {"rows": rows, "n": n}
    return res


def pairs_custom(rec, name, tier, seed, shard, nshards, n_unused):
    """enumeration of the (rows, n) sub-domain; quick = at-risk pairs, thorough = all pairs"""
    d = workdir("c20e_")
    try:
        if tier == "thorough":
            todo = {}
            for rows in range(1 + shard, 20001, nshards):
                todo[rows] = list(range(1, 65))
            rec.exhaustive = True
        else:
            todo = {}
            for k, (rows, n) in enumerate(at_risk_pairs()):
                if rows % nshards == shard:
                    todo.setdefault(rows, []).append(n)
        path = os.path.join(d, "r.fits")
        for rows in sorted(todo):
            write_rows_file(path, rows)
            for n in todo[rows]:
                mid = (rows * 7919 + n * 104729 + seed) % n
                bands = sorted(set([0, n - 1, mid, min(n - 1, mid + 1)]))
                case = {"rows": rows, "n": n, "bands": bands}

                def chk(c):
                    res = Res()
                    got = check_pair_bands(path, rows, n, bands, res)
                    judge_tiling(got, rows, n, res)
                    res.nontrivial = n >= 2 and rows % n != 0
                    res.key = {"rows": rows, "n": n}
                    return res
                rec.record(name, case, run_check(chk, case))
        rec.extra["pairs_enumerated"] = rec.extra.get("pairs_enumerated", 0) + sum(len(v) for v in todo.values())
    finally:
        shutil.rmtree(d, ignore_errors=True)


random_pair = st.fixed_dictionaries({
    "rows": st.one_of(st.integers(1, 20000), st.integers(1, 200)),
    "n": st.integers(1, 64), "bands": st.just("all")})


# -------------------------------------------------------- content sub-domain
content_case = st.fixed_dictionaries({
    "rows": st.integers(1, 300), "cols": st.integers(1, 40),
    "n": st.one_of(st.integers(1, 8), st.integers(1, 64)),
    "ndim": st.sampled_from([2, 2, 3, 4]),
    "planes": st.integers(1, 3), "cube_index": st.integers(0, 2), "lead4": st.sampled_from([1, 1, 2, 3]),
    "bscale": st.sampled_from([None, None, 1.0, 0.5, 3.0]),
    # FITS scaling is physical = BZERO + BSCALE * stored; integer BITPIX is the usual reason for it
    "bzero": st.sampled_from([None, None, None, 0.0, 2.0, -100.0]),
    "dtype": st.sampled_from(["f4", "f8", "f4", "f8", "i2", "i4"]),
    "compress": st.sampled_from([0, 0, 0, 2, 3, 4, 7]),
    "proj": st.sampled_from(refs.ZWCS.PROJ),
    "crval": st.tuples(st.floats(0, 359.99), st.floats(-80, 80)),
    "crpix": st.tuples(st.floats(-50, 350), st.floats(-50, 350)),
    "scale": st.floats(1, 60),
    "seed": st.integers(0, 2 ** 31 - 1),
    "ext": st.sampled_from([0, 0, 0, 1]),
})


def build_content(c, d):
    rows, cols = c["rows"], c["cols"]
    rng = np.random.default_rng(c["seed"])
    planes = c["planes"] if c["ndim"] > 2 else 1
    if c["dtype"].startswith("i"):
        cube = rng.integers(-3000, 3000, size=(planes, rows, cols)).astype(c["dtype"])
    else:
        cube = rng.normal(size=(planes, rows, cols)).astype(c["dtype"])
    ci = min(c["cube_index"], planes - 1)
    w = refs.ZWCS(c["proj"], c["crval"][0], c["crval"][1], c["crpix"][0], c["crpix"][1],
                  -c["scale"] / 3600.0, c["scale"] / 3600.0)
    if c["ndim"] == 2:
        arr = cube[0]
    elif c["ndim"] == 3:
        arr = cube
    elif c.get("lead4", 1) > 1:
        # 4-D with a non-degenerate leading axis: the documented plane is [0, cube_index]; the other leading planes hold
        # unrelated data
        arr = np.stack([cube] + [(cube[::-1] * 3 + 1).astype(c["dtype"]) for _ in range(c["lead4"] - 1)])
    else:
        arr = cube[None]
    ext = c.get("ext", 0)
    hdu = fits.PrimaryHDU(arr) if ext == 0 else fits.ImageHDU(arr)
    for k, v in w.header_cards().items():
        hdu.header[k] = v
    path = os.path.join(d, "img.fits")
    if ext == 0:
        hdu.writeto(path, overwrite=True)
    else:
        # the image lives in extension 1, behind a primary HDU holding unrelated data of another shape
        fits.HDUList([fits.PrimaryHDU(np.zeros((3, 5), dtype=np.float32)), hdu]).writeto(path, overwrite=True)
    bzero = c.get("bzero")
    if c["bscale"] is not None or bzero is not None:
        # astropy drops the scaling cards from float HDUs on write: patch them into the raw file
        with fits.open(path, mode="update", do_not_scale_image_data=True) as hl:
            if c["bscale"] is not None:
                hl[ext].header["BSCALE"] = c["bscale"]
            if bzero is not None:
                hl[ext].header["BZERO"] = bzero
    full = cube[ci].astype(np.float64) * (c["bscale"] if c["bscale"] is not None else 1.0) + (bzero or 0.0)
    # the physical values, at the precision the stored type can carry
    return path, full.astype(c["dtype"] if not c["dtype"].startswith("i") else "f8"), w, ci


def check_content(c):
    res = Res()
    if c["compress"]:
        c = dict(c, ndim=2, bscale=None, bzero=None, dtype=c["dtype"].replace("i2", "f4").replace("i4", "f8"),
                 rows=max(2, c["rows"]), cols=max(2, c["cols"]), ext=0)
    d = workdir("c20c_")
    try:
        path, full, w, ci = build_content(c, d)
        rows, cols, n = c["rows"], c["cols"], c["n"]
        compressed = False
        if c["compress"] and c["ndim"] == 2 and rows >= 2 and cols >= 2 and c["bscale"] is None:
            cpath = os.path.join(d, "cmp.fits")
            fits_tools.compress(path, c["compress"], cpath)
            # what a compressed file stands for is its expansion
            full = np.asarray(fits_tools.expand(cpath)[0].data)
            path = cpath
            compressed = True
            res.label("compressed")
        if c["ndim"] > 2:
            res.label("ndim%d" % c["ndim"])
        if c["bscale"] is not None:
            res.label("bscale")
        if c.get("bzero") is not None:
            res.label("bzero")
        if c["dtype"].startswith("i"):
            res.label("integer-bitpix")
        if c.get("ext"):
            res.label("hdu_index-1")
        nxt = 0
        for i in range(n):
            data, hdr = fits_tools.load_image_band(path, band=(i, n), cube_index=ci, hdu_index=c.get("ext", 0))
            data = np.asarray(data)
            k = data.shape[0]
            if data.ndim != 2 or data.shape[1] != cols:
                res.bad("band-shape", "band %d/%d: shape %r" % (i, n, data.shape), compressed=compressed)
                return res
            # locate the band from its values: it must be rows [nxt, nxt+k)
            if nxt + k > rows or not np.allclose(np.asarray(data, dtype=np.float64), np.asarray(full[nxt:nxt + k], dtype=np.float64),
                                                 rtol=1e-6 if c["dtype"] == "f4" else 1e-12, atol=1e-6 if c["dtype"] == "f4" else 1e-12,
                                                 equal_nan=True):
                res.bad("band-values", "band %d/%d: %d rows do not equal image rows %d..%d" % (i, n, k, nxt, nxt + k),
                        compressed=compressed)
                return res
            if True:
                if int(hdr["NAXIS2"]) != k:
                    res.bad("band-header-naxis2", "band %d/%d NAXIS2=%r for %d rows" % (i, n, hdr["NAXIS2"], k))
                bw = refs.ZWCS.from_header(hdr)
                if k:
                    pc = np.array([1.0, cols, (cols + 1) / 2.0])
                    pr = np.array([1.0, k, (k + 1) / 2.0])
                    ra_b, dec_b = bw.pix2sky(pc, pr)
                    ra_f, dec_f = w.pix2sky(pc, pr + nxt)
                    sep = float(np.max(refs.vsep(ra_b, dec_b, ra_f, dec_f)))
                    if not sep <= 1e-9:
                        res.bad("band-astrometry", "band %d/%d (rows %d..%d): band header maps its pixels %.3g deg away "
                                "from the full image's positions" % (i, n, nxt, nxt + k, sep))
            nxt += k
        if nxt != rows:
            res.bad("tiling-end", "rows=%d n=%d: bands cover %d rows" % (rows, n, nxt), compressed=compressed)
        res.nontrivial = n >= 2 and rows % n != 0
    finally:
        shutil.rmtree(d, ignore_errors=True)
    return res


# ------------------------------------------------------------ invalid specs
invalid_case = st.fixed_dictionaries({
    "rows": st.integers(1, 50),
    "band": st.one_of(
        st.tuples(st.integers(0, 5), st.integers(-3, 0)),
        st.integers(1, 64).flatmap(lambda n: st.tuples(st.integers(n, n + 70), st.just(n))),
        st.tuples(st.integers(-5, -1), st.integers(1, 64)),
    )})


def check_invalid(c):
    res = Res()
    d = workdir("c20i_")
    try:
        path = os.path.join(d, "r.fits")
        write_rows_file(path, c["rows"])
        try:
            fits_tools.load_image_band(path, band=tuple(c["band"]))
        except AegeanError:
            pass
        else:
            res.bad("invalid-accepted", "band=%r accepted for a %d-row image" % (tuple(c["band"]), c["rows"]))
        res.nontrivial = True
        res.key = {"band": list(c["band"])}
    finally:
        shutil.rmtree(d, ignore_errors=True)
    return res


TESTS = {
    "pairs": {"custom": pairs_custom, "check": check_pair_case, "n": {"quick": 0, "thorough": 0}},
    "random_pairs": {"strategy": lambda tier: random_pair, "check": check_pair_case,
                     "n": {"quick": 400, "thorough": 8000}},
    "content": {"strategy": lambda tier: content_case, "check": check_content,
                "n": {"quick": 600, "thorough": 20000}},
    "invalid": {"strategy": lambda tier: invalid_case, "check": check_invalid,
                "n": {"quick": 200, "thorough": 3000}},
}
