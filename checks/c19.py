"""C19 - regrouping = eps-connected partition of the catalogue, independent of row order (cluster.py, AeReg)"""
import copy
import math
import os
import shutil
import tempfile

import numpy as np
from hypothesis import strategies as st

from AegeanTools import cluster
from AegeanTools.models import ComponentSource
from vlib import refs
from vlib.core import Res, workdir

PROP = "C19"
SHARDS = {"quick": 8, "thorough": 16}
RULE = ("Hypothesis: field centre (generic / |dec| > 85 / across RA 0=360), linking length 1 arcsec..2 deg (log-uniform), "
        "1..500 sources given as offsets in units of the linking length: explicit lists (<= 40 sources, shrinkable), "
        "chains with spacings {0.5,0.9,0.999,1.001,1.1,1.5} x eps, seeded random clumps/uniform fields up to 500 sources, "
        "duplicates and equal fluxes, and a generated permutation of the rows. The linking length is converted as the "
        "callers do (eps_cart = sin(radians(arcmin/60))). Oracle for regroup_dbscan: union-find over all pairs with the "
        "harness's vector separation against the exact angular equivalent 2*asin(eps_cart/2) of the chord threshold, with two "
        "graphs (sep < L(1-1e-6), sep <= L(1+1e-6)) so ties are never judged. Oracle for regroup (elliptical): partition, "
        "chain-connectedness under the documented normalised distance, permutation invariance. resize: ratio 1 identity, "
        "ratio > 1 never shrinks. Non-trivial = >= 2 groups and a group of >= 3 whose members are not all pairwise within the "
        "linking length (a true chain); distinct = distinct case.")
ASSUMPTIONS = [
    "the linking length handed to regroup_dbscan is a chord length; its exact angular equivalent 2*asin(eps/2) is the "
    "oracle's linking length (the callers' sin(eps) conversion differs from eps by eps^2/8 relative, 1.5e-4 at 2 deg)",
    "pairs within 1e-6 relative of the linking length may be linked or not",
    "elliptical variant: distinct declinations, only partition / chain-connectedness / permutation invariance are claimed",
]

f = st.floats
FLUXES = st.one_of(f(0.001, 100), st.sampled_from([1.0, 1.0, 2.0, -3.0, 0.5]))

centre = st.one_of(
    st.tuples(f(0, 360, exclude_max=True), f(-80, 80)),
    st.tuples(f(0, 360, exclude_max=True), st.one_of(f(85, 89.9), f(-89.9, -85))),
    st.tuples(st.sampled_from([0.0, 359.999, 0.001, 359.9, 0.05]), f(-70, 70)),
)

layout = st.one_of(
    st.fixed_dictionaries({"kind": st.just("list"),
                           "pts": st.lists(st.tuples(f(-4, 4), f(-4, 4), FLUXES), min_size=1, max_size=40)}),
    st.fixed_dictionaries({"kind": st.just("chain"), "bearing": f(0, 360),
                           "steps": st.lists(st.tuples(st.sampled_from([0.5, 0.9, 0.999, 1.001, 1.1, 1.5, 0.0]), FLUXES),
                                             min_size=2, max_size=30)}),
    st.fixed_dictionaries({"kind": st.just("random"), "n": st.one_of(st.integers(1, 60), st.integers(1, 500)),
                           "density": f(0.2, 3.0), "clumps": st.integers(0, 6), "dup": f(0, 0.2),
                           "equal_flux": st.booleans(), "seed": st.integers(0, 2 ** 31 - 1)}),
)

case_strategy = st.fixed_dictionaries({
    "centre": centre,
    # log-uniform 1 arcsec .. 2 deg, plus fixed values so that arcsecond linking lengths (where single-precision or
    # small-angle shortcuts show) are always well represented
    "eps_arcmin": st.one_of(f(math.log10(1 / 60.0), math.log10(120.0)).map(lambda e: 10 ** e),
                            st.sampled_from([1 / 60.0, 2 / 60.0, 5 / 60.0, 0.25, 1.0, 4.0, 60.0, 120.0])),
    "layout": layout,
    "perm_seed": st.integers(0, 2 ** 31 - 1),
})


def offsets(lay):
    """list of (dx, dy, flux) in units of the linking length"""
    if lay["kind"] == "list":
        return [tuple(p) for p in lay["pts"]]
    if lay["kind"] == "chain":
        out = [(0.0, 0.0, 1.0)]
        b = math.radians(lay["bearing"])
        d = 0.0
        for step, flux in lay["steps"]:
            d += step
            out.append((d * math.sin(b), d * math.cos(b), flux))
        return out
    rng = np.random.default_rng(lay["seed"])
    n = lay["n"]
    side = math.sqrt(n / lay["density"]) + 1.0
    if lay["clumps"]:
        cen = rng.uniform(0, side, size=(lay["clumps"], 2))
        which = rng.integers(0, lay["clumps"], size=n)
        pts = cen[which] + rng.normal(scale=0.7, size=(n, 2))
    else:
        pts = rng.uniform(0, side, size=(n, 2))
    ndup = int(lay["dup"] * n)
    if ndup and n > 1:
        src = rng.integers(0, n, size=ndup)
        dst = rng.integers(0, n, size=ndup)
        pts[dst] = pts[src]
    flux = np.ones(n) if lay["equal_flux"] else rng.lognormal(size=n) * rng.choice([1, 1, 1, -1], size=n)
    return [(float(p[0]), float(p[1]), float(fl)) for p, fl in zip(pts, flux)]


def make_sources(c):
    ra0, dec0 = c["centre"]
    eps_deg = c["eps_arcmin"] / 60.0
    srcs = []
    for k, (dx, dy, flux) in enumerate(offsets(c["layout"])):
        dist = math.hypot(dx, dy) * eps_deg
        bearing = math.degrees(math.atan2(dx, dy))
        if dist >= 179.0:
            dist = 179.0
        ra, dec = (float(v) for v in refs.vdest(ra0, dec0, dist, bearing))
        s = ComponentSource()
        s.ra, s.dec = ra, dec
        s.peak_flux = flux
        s.int_flux = flux * 1.5
        s.a, s.b, s.pa = 30.0 + (k % 7), 20.0 + (k % 5), float((k * 37) % 180 - 90)
        s.psf_a, s.psf_b, s.psf_pa = 20.0, 15.0, 10.0
        s.island, s.source = 1000 + k, 7
        s.uuid = "src-%05d" % k
        s.err_ra = 0.001 * k
        s.flags = k % 4
        s.local_rms = float("nan") if k % 3 == 0 else 0.1
        srcs.append(s)
    return srcs


class UF(object):
    def __init__(self, n):
        self.p = list(range(n))

    def find(self, i):
        while self.p[i] != i:
            self.p[i] = self.p[self.p[i]]
            i = self.p[i]
        return i

    def union(self, i, j):
        a, b = self.find(i), self.find(j)
        if a != b:
            self.p[a] = b

    def groups(self):
        out = {}
        for i in range(len(self.p)):
            out.setdefault(self.find(i), []).append(i)
        return list(out.values())


def attrs_equal(a, b):
    for k in set(a.__dict__) | set(b.__dict__):
        if k in ("island", "source"):
            continue
        va, vb = a.__dict__.get(k), b.__dict__.get(k)
        if isinstance(va, float) and isinstance(vb, float) and math.isnan(va) and math.isnan(vb):
            continue
        if type(va) != type(vb) or va != vb:
            return k
    return None


def check_numbering(groups, res, what):
    seen = set()
    for g in groups:
        nums = sorted(s.source for s in g)
        if nums != list(range(len(g))):
            res.bad("numbering", "%s: a group of %d is numbered %r" % (what, len(g), nums[:10]))
            return
        by = sorted(g, key=lambda s: s.source)
        for p, q in zip(by, by[1:]):
            if not p.peak_flux >= q.peak_flux:
                res.bad("flux-order", "%s: source %d has peak %r, source %d has peak %r" % (
                    what, p.source, p.peak_flux, q.source, q.peak_flux))
                return
        for s in g:
            key = (s.island, s.source)
            if key in seen:
                res.bad("label-unique", "%s: (island, source) = %r used twice" % (what, key))
                return
            seen.add(key)
        if len(set(s.island for s in g)) != 1:
            res.bad("island-label", "%s: members of one group carry different island numbers" % what)
            return


def check_dbscan(c):
    res = Res()
    srcs = make_sources(c)
    n = len(srcs)
    before = copy.deepcopy(srcs)
    eps_cart = float(np.sin(np.radians(c["eps_arcmin"] / 60.0)))        # exactly as AeReg / priorized_fit_islands do
    L = math.degrees(2 * math.asin(eps_cart / 2.0))
    groups = cluster.regroup_dbscan(srcs, eps=eps_cart)
    # partition
    ids = [id(s) for g in groups for s in g]
    if sorted(ids) != sorted(id(s) for s in srcs):
        res.bad("partition", "%d sources in, %d memberships out (%d distinct)" % (n, len(ids), len(set(ids))))
        return res
    index = {id(s): k for k, s in enumerate(srcs)}
    got = set(frozenset(index[id(s)] for s in g) for g in groups)
    ra = np.array([s.ra for s in srcs])
    dec = np.array([s.dec for s in srcs])
    sep = refs.vsep(ra[:, None], dec[:, None], ra[None, :], dec[None, :]) if n > 1 else np.zeros((1, 1))
    strict, lenient = UF(n), UF(n)
    ii, jj = np.where(np.triu(sep < L * (1 - 1e-6), 1))
    for i, j in zip(ii.tolist(), jj.tolist()):
        strict.union(i, j)
    ii, jj = np.where(np.triu(sep <= L * (1 + 1e-6), 1))
    for i, j in zip(ii.tolist(), jj.tolist()):
        lenient.union(i, j)
    sg = [frozenset(g) for g in strict.groups()]
    lg = [frozenset(g) for g in lenient.groups()]
    # every strict group must lie inside one returned group; every returned group inside one lenient group
    for g in sg:
        if not any(g <= r for r in got):
            members = sorted(g)[:6]
            res.bad("linked-but-split", "sources %r are chained by separations < eps=%g arcmin but are not in one group" % (
                members, c["eps_arcmin"]), pole=bool(abs(c["centre"][1]) > 85), wrap=bool(ra.max() - ra.min() > 180))
            break
    for r in got:
        if not any(r <= g for g in lg):
            res.bad("grouped-but-unlinked", "group %r contains sources not chained by separations <= eps=%g arcmin" % (
                sorted(r)[:6], c["eps_arcmin"]), pole=bool(abs(c["centre"][1]) > 85))
            break
    if set(sg) != set(lg):
        res.label("tie-at-eps")
    check_numbering(groups, res, "regroup_dbscan")
    for s, b in zip(srcs, before):
        k = attrs_equal(s, b)
        if k:
            res.bad("attribute-changed", "attribute %s of a source changed from %r to %r" % (k, getattr(b, k), getattr(s, k)))
            break
    # permutation invariance
    rng = np.random.default_rng(c["perm_seed"])
    perm = rng.permutation(n)
    srcs2 = [copy.deepcopy(before[k]) for k in perm]
    groups2 = cluster.regroup_dbscan(srcs2, eps=eps_cart)
    part1 = set(frozenset(s.uuid for s in g) for g in groups)
    part2 = set(frozenset(s.uuid for s in g) for g in groups2)
    if part1 != part2 and set(sg) == set(lg):
        res.bad("permutation", "the partition changes when the rows are permuted (%d vs %d groups)" % (len(part1), len(part2)))
    check_numbering(groups2, res, "regroup_dbscan(permuted)")
    # non-trivial: a true chain
    chain = False
    for g in got:
        if len(g) >= 3:
            idx = sorted(g)
            sub = sep[np.ix_(idx, idx)]
            if np.any(sub > L * (1 + 1e-6)):
                chain = True
                break
    res.nontrivial = bool(len(got) >= 2 and chain)
    res.label("layout-" + c["layout"]["kind"])
    if abs(c["centre"][1]) > 85:
        res.label("near-pole")
    if n > 1 and ra.max() - ra.min() > 180:
        res.label("ra-wrap")
    if n >= 100:
        res.label("n>=100")
    return res


# ----------------------------------------------------------------- elliptical
def h_norm_dist(s1, s2):
    """documented normalised distance, computed by the harness"""
    if (s1.ra, s1.dec) == (s2.ra, s2.dec):
        return 0.0
    dist = float(refs.vsep(s1.ra, s1.dec, s2.ra, s2.dec))
    phi = float(refs.vbear(s1.ra, s1.dec, s2.ra, s2.dec))
    r1 = s1.a * s1.b / math.hypot(s1.a * math.sin(math.radians(phi - s1.pa)), s1.b * math.cos(math.radians(phi - s1.pa)))
    r2 = s2.a * s2.b / math.hypot(s2.a * math.sin(math.radians(180 + phi - s2.pa)),
                                  s2.b * math.cos(math.radians(180 + phi - s2.pa)))
    return dist / (math.hypot(r1, r2) / 3600.0)


ell_strategy = st.fixed_dictionaries({
    "centre": st.tuples(f(1, 359), f(-80, 80)),
    "scale_arcsec": f(5, 120),
    "pts": st.lists(st.tuples(f(-6, 6), f(-6, 6), FLUXES, f(0.5, 2.0), f(0.3, 1.0), f(-90, 90)), min_size=1, max_size=40),
    "eps": st.sampled_from([4.0, 1.0, 2.0, 0.7071]),
    "perm_seed": st.integers(0, 2 ** 31 - 1),
})


def check_elliptical(c):
    res = Res()
    ra0, dec0 = c["centre"]
    sc = c["scale_arcsec"]
    srcs = []
    for k, (dx, dy, flux, amul, ratio, pa) in enumerate(c["pts"]):
        # offsets in units of the source scale, so that the normalised distances are O(1)
        dist = math.hypot(dx, dy) * sc * 1.5 / 3600.0
        ra, dec = (float(v) for v in refs.vdest(ra0, dec0, dist, math.degrees(math.atan2(dx, dy))))
        s = ComponentSource()
        s.ra, s.dec = ra, dec + 1e-9 * k
        s.a, s.b, s.pa = sc * amul, sc * amul * ratio, pa
        s.peak_flux = flux
        s.uuid = "e-%04d" % k
        s.island, s.source = 500 + k, 3
        srcs.append(s)
    if len(set(s.dec for s in srcs)) != len(srcs):
        res.ambiguous += 1
        return res
    before = copy.deepcopy(srcs)
    groups = cluster.regroup(srcs, eps=c["eps"])
    ids = [id(s) for g in groups for s in g]
    if sorted(ids) != sorted(id(s) for s in srcs):
        res.bad("ell-partition", "%d sources in, %d memberships out (%d distinct)" % (len(srcs), len(ids), len(set(ids))))
        return res
    eps = c["eps"]
    multi = False
    for g in groups:
        if len(g) < 2:
            continue
        multi = True
        uf = UF(len(g))
        for i in range(len(g)):
            for j in range(i + 1, len(g)):
                if min(h_norm_dist(g[i], g[j]), h_norm_dist(g[j], g[i])) < eps * (1 + 1e-6):
                    uf.union(i, j)
        if len(uf.groups()) != 1:
            res.bad("ell-chain", "a group of %d is not chain-connected under normalised distance < %g" % (len(g), eps))
            break
    check_numbering(groups, res, "regroup")
    for s, b in zip(srcs, before):
        k = attrs_equal(s, b)
        if k:
            res.bad("ell-attribute-changed", "attribute %s changed" % k)
            break
    rng = np.random.default_rng(c["perm_seed"])
    srcs2 = [copy.deepcopy(before[k]) for k in rng.permutation(len(before))]
    groups2 = cluster.regroup(srcs2, eps=eps)
    p1 = set(frozenset(s.uuid for s in g) for g in groups)
    p2 = set(frozenset(s.uuid for s in g) for g in groups2)
    if p1 != p2:
        res.bad("ell-permutation", "the partition changes when the rows are permuted (%d vs %d groups)" % (len(p1), len(p2)))
    res.nontrivial = bool(multi and len(groups) >= 2)
    return res


# --------------------------------------------------------------------- resize
resize_strategy = st.fixed_dictionaries({
    "srcs": st.lists(st.tuples(f(1, 300), f(0.1, 1.0), f(1, 100), f(0.2, 1.0)), min_size=1, max_size=30),
    "ratio": st.one_of(st.just(1.0), f(1.0, 5.0), st.sampled_from([1.0, 2.0, 1.0000001])),
})


def check_resize(c):
    res = Res()
    cat = []
    for k, (a, r, pa_, pr) in enumerate(c["srcs"]):
        s = ComponentSource()
        s.ra, s.dec = 10.0 + k * 0.01, -20.0
        s.a, s.b, s.pa = a, a * r, 12.0
        s.psf_a, s.psf_b, s.psf_pa = pa_, pa_ * pr, 5.0
        s.peak_flux = 1.0
        s.uuid = "r-%d" % k
        cat.append(s)
    before = [(s.a, s.b) for s in cat]
    out = cluster.resize(cat, ratio=c["ratio"])
    if len(out) != len(cat):
        res.bad("resize-dropped", "ratio=%r: %d of %d sources returned although all psf columns are finite" % (
            c["ratio"], len(out), len(cat)))
        return res
    for s, (a0, b0) in zip(out, before):
        if c["ratio"] == 1.0:
            if not (abs(s.a - a0) <= 1e-12 * a0 and abs(s.b - b0) <= 1e-12 * b0):
                res.bad("resize-identity", "ratio=1 changed (a,b)=(%r,%r) to (%r,%r)" % (a0, b0, s.a, s.b))
                break
        elif not (s.a >= a0 * (1 - 1e-12) and s.b >= b0 * (1 - 1e-12)):
            res.bad("resize-shrinks", "ratio=%r shrank (a,b)=(%r,%r) to (%r,%r)" % (c["ratio"], a0, b0, s.a, s.b))
            break
    res.nontrivial = len(cat) >= 2
    return res


# ----------------------------------------------------------------- AeReg CLI
def check_aereg(c):
    """the command line tool: catalogue file in, regrouped catalogue file out"""
    from AegeanTools.CLI import AeReg
    from AegeanTools.catalogs import load_table, save_catalog, table_to_source_list
    res = Res()
    srcs = make_sources(c)
    for s in srcs:
        s.ra_str, s.dec_str = "00:00:00.00", "+00:00:00.00"
    n = len(srcs)
    d = workdir("c19_")
    try:
        fmt = c.get("fmt", "csv")        # table format of the input and output catalogue files (double precision ones)
        save_catalog(os.path.join(d, "in." + fmt), srcs)
        rc = AeReg.main(["--input", os.path.join(d, "in_comp." + fmt), "--table", os.path.join(d, "out." + fmt),
                         "--eps", repr(c["eps_arcmin"])])
        if rc != 0 or not os.path.exists(os.path.join(d, "out_comp." + fmt)):
            res.bad("aereg-run", "AeReg returned %r, output exists=%s" % (rc, os.path.exists(os.path.join(d, "out_comp." + fmt))), fmt=fmt)
            return res
        out = table_to_source_list(load_table(os.path.join(d, "out_comp." + fmt)))
        for s_ in out:
            s_.uuid = s_.uuid.decode() if isinstance(s_.uuid, bytes) else str(s_.uuid)
        res.label("aereg-" + fmt)
    finally:
        shutil.rmtree(d, ignore_errors=True)
    if sorted(s.uuid for s in out) != sorted(s.uuid for s in srcs):
        res.bad("aereg-partition", "%d sources in, %d out (or uuids differ)" % (n, len(out)))
        return res
    index = {s.uuid: k for k, s in enumerate(srcs)}
    by_island = {}
    for s in out:
        by_island.setdefault(int(s.island), []).append(s)
    got = set(frozenset(index[s.uuid] for s in g) for g in by_island.values())
    L = c["eps_arcmin"] / 60.0
    band = max(1e-6, math.radians(L) ** 2 / 6.0)     # the CLI converts arcmin -> chord as sin(eps): eps^2/8 relative
    ra = np.array([s.ra for s in srcs])
    dec = np.array([s.dec for s in srcs])
    sep = refs.vsep(ra[:, None], dec[:, None], ra[None, :], dec[None, :]) if n > 1 else np.zeros((1, 1))
    strict, lenient = UF(n), UF(n)
    for i, j in zip(*[a.tolist() for a in np.where(np.triu(sep < L * (1 - band), 1))]):
        strict.union(i, j)
    for i, j in zip(*[a.tolist() for a in np.where(np.triu(sep <= L * (1 + band), 1))]):
        lenient.union(i, j)
    for g in (frozenset(g) for g in strict.groups()):
        if not any(g <= r for r in got):
            res.bad("aereg-linked-but-split", "sources %r chained within --eps %g arcmin are not in one island" % (
                sorted(g)[:6], c["eps_arcmin"]))
            break
    lg = [frozenset(g) for g in lenient.groups()]
    for r in got:
        if not any(r <= g for g in lg):
            res.bad("aereg-grouped-but-unlinked", "island %r contains sources not chained within --eps %g arcmin" % (
                sorted(r)[:6], c["eps_arcmin"]))
            break
    check_numbering(list(by_island.values()), res, "AeReg")
    orig = {s.uuid: s for s in srcs}
    for s in out:
        o = orig[s.uuid]
        for k in ("ra", "dec", "peak_flux", "a", "b", "pa", "flags"):
            if getattr(s, k) != getattr(o, k):
                res.bad("aereg-attribute-changed", "%s of %s changed from %r to %r" % (k, s.uuid, getattr(o, k), getattr(s, k)))
                return res
    res.nontrivial = bool(len(got) >= 2 and any(len(g) >= 2 for g in got))
    return res


TESTS = {
    "aereg": {"strategy": lambda tier: st.tuples(case_strategy.filter(lambda c: c["layout"]["kind"] != "random" or c["layout"]["n"] <= 80),
                                                 st.sampled_from(["csv", "csv", "vot", "xml"])).map(lambda t: dict(t[0], fmt=t[1])),
              "check": check_aereg, "n": {"quick": 150, "thorough": 3000}},
    "dbscan": {"strategy": lambda tier: case_strategy, "check": check_dbscan,
               "n": {"quick": 1200, "thorough": 30000}},
    "elliptical": {"strategy": lambda tier: ell_strategy, "check": check_elliptical,
                   "n": {"quick": 500, "thorough": 10000}},
    "resize": {"strategy": lambda tier: resize_strategy, "check": check_resize,
               "n": {"quick": 400, "thorough": 5000}},
}
