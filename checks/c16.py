"""C16 - pixel<->sky conversion of positions, vectors, ellipses (wcs_helpers.WCSHelper)"""
import math

import numpy as np
from astropy.io import fits
from hypothesis import strategies as st

from AegeanTools.wcs_helpers import WCSHelper
from vlib import refs
from vlib.core import Res

PROP = "C16"
SHARDS = {"quick": 8, "thorough": 16}
RULE = ("Hypothesis: zenithal header (SIN/TAN/ZEA/ARC/STG), CRVAL1 uniform or at the RA wrap, |CRVAL2| <= 85 (weighted to "
        "> 60), pixel scale 1..60 arcsec, image 32..512 px, CRPIX on the image (+-10%), pixel position anywhere inside, "
        "vector/ellipse sizes 1..20 px, axis ratio 0.2..1, angles in (-180,180]; beam from the header. Oracles: harness "
        "zenithal WCS (validated against wcslib), harness great-circle separation and position angle, inverse round trips. "
        "Non-trivial = |CRVAL2| > 60, or CRVAL1 within 1 deg of the wrap, or pixel > 100 px from CRPIX; distinct = distinct case.")
ASSUMPTIONS = [
    "images <= 512 px at <= 60 arcsec/px with the reference pixel on the image: the vector/ellipse transforms are "
    "first-order and the 1e-3 tolerance is only meaningful for such field sizes (TAN reaches 5e-4 there)",
    "ellipse position angles compared modulo 180 deg, vector angles modulo 360 deg",
    "ellipse round trips are judged only for 'small' ellipses: 2*a*tan(R) <= 3e-4 (a = semi-major axis in rad, R = distance "
    "from the reference point); larger ones (about 8 % of generated cases) are counted as ambiguous because the end-point "
    "representation of an ellipse is itself only first-order there",
]

f = st.floats

header_strategy = st.fixed_dictionaries({
    "proj": st.sampled_from(refs.ZWCS.PROJ),
    "crval1": st.one_of(f(0, 360, exclude_max=True), st.sampled_from([0.0, 0.0005, 359.9995, 359.5, 0.3])),
    "crval2": st.one_of(f(-85, 85), f(60, 85), f(-85, -60), st.sampled_from([0.0, 85.0, -85.0])),
    "scale": st.one_of(f(1, 60), st.sampled_from([1.0, 60.0])),
    "size": st.tuples(st.integers(32, 512), st.integers(32, 512)),       # (naxis1, naxis2)
    "crpix_frac": st.tuples(f(-0.1, 1.1), f(-0.1, 1.1)),
    "flipy": st.booleans(),
    # |CDELT2| / |CDELT1|: square pixels mostly, but the code documents support for sky-perpendicular axes that are
    # not perpendicular in pixel space, which needs non-square pixels to be exercised
    "aspect": st.one_of(st.just(1.0), st.just(1.0), f(0.5, 2.0)),
    "beam": st.tuples(f(2, 8), f(0.3, 1.0), f(-90, 90)),                   # bmaj in px, ratio, bpa
})


def make_helper(h):
    n1, n2 = h["size"]
    s = h["scale"] / 3600.0
    w = refs.ZWCS(h["proj"], h["crval1"], h["crval2"], h["crpix_frac"][0] * n1, h["crpix_frac"][1] * n2,
                  -s, (-s if h["flipy"] else s) * h.get("aspect", 1.0))
    hdr = fits.Header()
    hdr["SIMPLE"] = True
    hdr["BITPIX"] = -32
    hdr["NAXIS"] = 2
    hdr["NAXIS1"] = n1
    hdr["NAXIS2"] = n2
    for k, v in w.header_cards().items():
        hdr[k] = v
    bmaj = h["beam"][0] * s
    hdr["BMAJ"] = bmaj
    hdr["BMIN"] = bmaj * h["beam"][1]
    hdr["BPA"] = h["beam"][2]
    return WCSHelper.from_header(hdr), w, hdr


case_strategy = st.fixed_dictionaries({
    "hdr": header_strategy,
    "pix_frac": st.tuples(f(0, 1), f(0, 1)),          # (row frac, col frac) inside the image
    # how positions are handed to the helper; the int forms use whole-pixel positions typed as integers
    "form": st.sampled_from(["tuple", "tuple", "list", "array", "int-tuple", "int-array"]),
    "r": f(1, 20), "ratio": f(0.2, 1.0),
    "theta": st.one_of(f(-180, 180, exclude_min=True), st.sampled_from([0.0, 90.0, 180.0, -90.0, 45.0])),
})


def rel(a, b):
    return abs(a - b) / max(abs(b), 1e-300)


def check_case(c):
    res = Res()
    h = c["hdr"]
    helper, w, hdr = make_helper(h)
    n1, n2 = h["size"]
    s = h["scale"] / 3600.0
    # Aegean pixel = (x, y) = (row, column), 1-based
    x = 1 + c["pix_frac"][0] * (n2 - 1)
    y = 1 + c["pix_frac"][1] * (n1 - 1)
    theta, r, ratio = c["theta"], c["r"], c["ratio"]
    if c.get("form", "tuple").startswith("int"):
        x, y = float(round(x)), float(round(y))
    # call form of the position argument: the relations are stated for the CALLER's values, so an argument that comes
    # back changed breaks them for every caller that goes on using it
    form = c.get("form", "tuple")

    def H(name, p, q, *rest):
        whole = form.startswith("int") and float(p) == int(p) and float(q) == int(q)      # (sky positions stay floats)
        if whole and form == "int-tuple":
            arg = (int(p), int(q))
        elif whole:
            arg = np.array([int(p), int(q)], dtype=np.int64)
        else:
            arg = (p, q) if form in ("tuple", "int-tuple") else [p, q] if form == "list" else np.array([p, q], dtype=np.float64)
        out = getattr(helper, name)(arg, *rest)
        if not isinstance(arg, tuple) and not (float(arg[0]) == float(p) and float(arg[1]) == float(q)):
            res.bad("input-modified", "%s(%s position) changed its argument from (%r, %r) to (%r, %r)" % (
                name, form, p, q, float(arg[0]), float(arg[1])), proj=h["proj"])
        return out

    # (1)(2) position: agrees with the FITS standard, and inverse
    ra, dec = (float(v) for v in H("pix2sky", x, y))
    hra, hdec = (float(v) for v in w.pix2sky(y, x))
    sep = float(refs.vsep(ra, dec, hra, hdec))
    res.stat("pix2sky_err_deg", sep)
    if not sep <= 1e-9:
        res.bad("pix2sky-standard", "pix2sky((%r,%r)) = (%r,%r); FITS standard gives (%r,%r), %.3g deg away" % (
            x, y, ra, dec, hra, hdec, sep), proj=h["proj"])
    bx, by = (float(v) for v in H("sky2pix", ra, dec))
    d = math.hypot(bx - x, by - y)
    res.stat("roundtrip_px", d)
    if not d <= 1e-6:
        res.bad("pixel-roundtrip", "sky2pix(pix2sky((%r,%r))) = (%r,%r), off by %.3g px" % (x, y, bx, by, d), proj=h["proj"])
    hx, hy = w.sky2pix(ra, dec)   # harness inverse: (axis1, axis2) = (y, x)
    d2 = math.hypot(float(hx) - y, float(hy) - x)
    if not d2 <= 1e-6:
        res.bad("sky2pix-standard", "harness inverse of pix2sky((%r,%r)) is (%r,%r) [axis1,axis2]" % (x, y, float(hx), float(hy)))

    # (3) vector pixel -> sky: great-circle length and East-of-North angle of the mapped end points
    ra1, dec1, vlen, vpa = (float(v) for v in H("pix2sky_vec", x, y, r, theta))
    ex = x + r * math.cos(math.radians(theta))
    ey = y + r * math.sin(math.radians(theta))
    era, edec = (float(v) for v in w.pix2sky(ey, ex))
    tlen = float(refs.vsep(hra, hdec, era, edec))
    tpa = float(refs.vbear(hra, hdec, era, edec))
    if not rel(vlen, tlen) <= 1e-6:
        res.bad("vec-length", "pix2sky_vec length %r, great-circle length of mapped end points %r" % (vlen, tlen), proj=h["proj"])
    dpa = abs(float(refs.angdiff(vpa, tpa)))
    res.stat("vec_pa_err", dpa)
    if not dpa <= 0.01:
        res.bad("vec-angle", "pix2sky_vec pa %r, East-of-North position angle of mapped end points %r" % (vpa, tpa), proj=h["proj"])
    # East of North by construction: step north / east on the sky (harness), express as a pixel vector
    step = 5 * s
    for name, target, want in (("north", (hra, hdec + step), 0.0),
                               ("east", tuple(float(v) for v in refs.vdest(hra, hdec, step, 90.0)), 90.0)):
        if abs(target[1]) >= 89.9 or abs(hdec) >= 89.9:
            continue
        p1, p2 = w.sky2pix(target[0], target[1])
        vx, vy = float(p2) - x, float(p1) - y
        rr = math.hypot(vx, vy)
        th = math.degrees(math.atan2(vy, vx))
        _, _, l2, pa2 = (float(v) for v in H("pix2sky_vec", x, y, rr, th))
        if not abs(float(refs.angdiff(pa2, want))) <= 0.01:
            res.bad("east-of-north", "a pixel vector towards %s came back with pa=%r (want %r)" % (name, pa2, want), proj=h["proj"])
        if not rel(l2, step) <= 1e-6:
            res.bad("vec-length", "a %r deg step towards %s came back with length %r" % (step, name, l2), proj=h["proj"])

    # (4) vector round trips
    _, _, r2, th2 = (float(v) for v in H("sky2pix_vec", ra1, dec1, vlen, vpa))
    if not (rel(r2, r) <= 1e-3 and abs(float(refs.angdiff(th2, theta))) <= 0.01):
        res.bad("vec-roundtrip-pix", "pix (r=%r, theta=%r) -> sky (%r, %r) -> pix (%r, %r)" % (r, theta, vlen, vpa, r2, th2),
                proj=h["proj"])
    sky_r = r * s
    _, _, pr, pth = (float(v) for v in H("sky2pix_vec", ra, dec, sky_r, theta))
    _, _, sr2, spa2 = (float(v) for v in H("pix2sky_vec", x, y, pr, pth))
    if not (rel(sr2, sky_r) <= 1e-3 and abs(float(refs.angdiff(spa2, theta))) <= 0.01):
        res.bad("vec-roundtrip-sky", "sky (r=%r, pa=%r) -> pix (%r, %r) -> sky (%r, %r)" % (sky_r, theta, pr, pth, sr2, spa2),
                proj=h["proj"])

    # (5) ellipse round trips (sky -> pix -> sky and pix -> sky -> pix)
    a, b = r * s, r * s * ratio
    # An ellipse is "small" when the projection is affine across it to well within the 1e-3 tolerance.  The pixel
    # scale of a zenithal projection changes across an ellipse of semi-axis a at distance R from the reference point
    # by up to 2 a tan(R) (TAN; less for the others; measured: observed/predicted <= 0.98).  Beyond 3e-4 the
    # first-order (end-point) representation itself is not defined to 1e-3, so the round trip is not judged.
    R = float(refs.vsep(hra, hdec, h["crval1"], h["crval2"]))
    e2 = 2 * math.radians(a) * math.tan(math.radians(min(R, 89.0)))
    res.stat("ellipse_second_order_term", e2)
    judge_ellipse = e2 <= 3e-4
    if not judge_ellipse:
        res.ambiguous += 1
        res.label("ellipse-not-small(skipped)")
    _, _, sx, sy, th = (float(v) for v in H("sky2pix_ellipse", ra, dec, a, b, theta))
    _, _, a2, b2, pa2 = (float(v) for v in H("pix2sky_ellipse", x, y, sx, sy, th))
    ea, eb = rel(a2, a), rel(b2, b)
    epa = abs(float(refs.angdiff(pa2, theta, 180.0)))
    if judge_ellipse:
        res.stat("ellipse_len_rel", max(ea, eb))
        res.stat("ellipse_pa_err", epa)
    if judge_ellipse and not (ea <= 1e-3 and eb <= 1e-3 and epa <= 0.01):
        res.bad("ellipse-roundtrip-sky", "sky (a=%r,b=%r,pa=%r) -> pix (%r,%r,%r) -> sky (%r,%r,%r)" % (
            a, b, theta, sx, sy, th, a2, b2, pa2), proj=h["proj"])
    # great-circle length of the major axis, East of North
    mra, mdec = (float(v) for v in refs.vdest(ra, dec, a, theta))
    mx1, mx2 = w.sky2pix(mra, mdec)
    tsx = math.hypot(float(mx2) - x, float(mx1) - y)
    if not rel(sx, tsx) <= 1e-6:
        res.bad("ellipse-major-length", "sky2pix_ellipse sx=%r, harness pixel length of the major axis %r" % (sx, tsx), proj=h["proj"])
    psx, psy = r, r * ratio
    _, _, pa_, pb_, ppa = (float(v) for v in H("pix2sky_ellipse", x, y, psx, psy, theta))
    _, _, sx2, sy2, th3 = (float(v) for v in H("sky2pix_ellipse", ra, dec, pa_, pb_, ppa))
    if judge_ellipse and not (rel(sx2, psx) <= 1e-3 and rel(sy2, psy) <= 1e-3 and abs(float(refs.angdiff(th3, theta, 180.0))) <= 0.01):
        res.bad("ellipse-roundtrip-pix", "pix (sx=%r,sy=%r,theta=%r) -> sky (%r,%r,%r) -> pix (%r,%r,%r)" % (
            psx, psy, theta, pa_, pb_, ppa, sx2, sy2, th3), proj=h["proj"])

    # (6) psf look-up without a psf map: the header beam at the reference pixel
    rra, rdec = (float(v) for v in H("pix2sky", hdr["CRPIX2"], hdr["CRPIX1"]))
    ba, bb, bpa = (float(v) for v in helper.get_psf_sky2sky(rra, rdec))
    okpa = h["beam"][1] > 0.95 or abs(float(refs.angdiff(bpa, hdr["BPA"], 180.0))) <= 0.01
    if not (rel(ba, hdr["BMAJ"]) <= 1e-3 and rel(bb, hdr["BMIN"]) <= 1e-3 and okpa):
        res.bad("psf-at-reference", "header beam (%r,%r,%r), get_psf_sky2sky at the reference pixel (%r,%r,%r)" % (
            hdr["BMAJ"], hdr["BMIN"], hdr["BPA"], ba, bb, bpa), proj=h["proj"])

    far = math.hypot(x - hdr["CRPIX2"], y - hdr["CRPIX1"]) > 100
    wrap = min(h["crval1"], 360 - h["crval1"]) < 1.0
    res.nontrivial = bool(abs(h["crval2"]) > 60 or wrap or far)
    res.label("proj-" + h["proj"])
    if h.get("aspect", 1.0) != 1.0:
        res.label("non-square-pixels")
    if abs(h["crval2"]) > 60:
        res.label("high-dec")
    if wrap:
        res.label("ra-wrap")
    if far:
        res.label("far-from-crpix")
    return res


TESTS = {
    "convert": {"strategy": lambda tier: case_strategy, "check": check_case,
                "n": {"quick": 3000, "thorough": 100000}},
}
