"""C14 - AeRes model images are the catalogue's Gaussians; subtraction closes the loop (AeRes.py)"""
import math
import os
import shutil
import tempfile

import numpy as np
from astropy.io import fits
from astropy.table import Table
from hypothesis import strategies as st

from AegeanTools import AeRes
from AegeanTools.catalogs import save_catalog
from AegeanTools.models import ComponentSource
from AegeanTools.source_finder import SourceFinder
from AegeanTools.wcs_helpers import WCSHelper
from vlib import refs, skyimg
from vlib.core import Res, workdir

PROP = "C14"
SHARDS = {"quick": 16, "thorough": 16}
CASE_TIMEOUT_S = 300   # a case that takes longer is inconclusive (counted as ambiguous), never a violation
RULE = ("Hypothesis: catalogues of 0..40 sources on 48..200 px images in five zenithal projections (every pixel within 1.2 deg "
        "of the reference point), positions anywhere incl. 1..3 px inside the edges and >= 2 px outside, FWHM 2..20 px, axis "
        "ratio 0.3..1, any PA, both signs; options add / mask (frac or sigma; positive sources only) / column renaming. Oracles: "
        "two independent renderings per source - (i) sky-space (separation and bearing on the sphere), (ii) affine pixel-space "
        "from the harness WCS; where they agree to 1e-5 of the peak the case is resolvable and make_model must match (i) to 1e-4 "
        "of the peak within 5 sigma; additivity over catalogue subsets; add-then-subtract through files; mask = union of "
        "per-source threshold sets; closed loop find -> make_residual < 1e-3 of the peak. Non-trivial = >= 2 sources, >= 1 within "
        "3 px of an edge or off the image, PA not a multiple of 90; distinct = distinct case.")
ASSUMPTIONS = [
    "every pixel within 1.2 deg of the reference point; cases where the two harness renderings differ by > 1e-5 of the peak are "
    "counted as ambiguous (the 1e-4 tolerance is then tighter than the meaning of 'the catalogue's Gaussian')",
    "mask mode is asserted for positive sources only; pixels whose model value is within 2e-4 of the peak of the threshold are "
    "not judged",
    "sources are centred either >= 1 px inside the image border or >= 2 px outside it",
]
f = st.floats

src_st = st.fixed_dictionaries({
    "where": st.sampled_from(["in", "in", "in", "in", "edge", "off", "far"]),
    "fx": f(0, 1), "fy": f(0, 1), "side": st.integers(0, 3), "dist": f(0, 1),
    "fwhm": f(2, 20), "ratio": f(0.3, 1.0), "pa": st.one_of(f(-180, 180), st.sampled_from([0.0, 90.0, 45.0])),
    "peak": st.tuples(f(0.1, 10), st.sampled_from([1, 1, 1, -1])).map(lambda t: t[0] * t[1]),
})

case_strategy = st.fixed_dictionaries({
    "rep": skyimg.rep_strategy,      # how the image is stored (CD matrix, degenerate axes, BSCALE/BZERO)
    "proj": st.sampled_from(refs.ZWCS.PROJ),
    "crval": st.tuples(st.one_of(f(0, 360, exclude_max=True), st.sampled_from([0.001, 359.999])), st.one_of(f(-85, 85), f(60, 85))),
    "scale": f(2, 60), "rows": st.integers(48, 200), "cols": st.integers(48, 200),
    "crpix_off": st.tuples(f(-1, 1), f(-1, 1)), "flipy": st.booleans(),
    "srcs": st.lists(src_st, min_size=0, max_size=40),
    "mode": st.sampled_from(["model", "model", "additive", "addsub", "mask-frac", "mask-sigma", "rename"]),
    "frac": f(0.05, 0.9), "sigma": f(2, 8), "split": st.integers(0, 40), "seed": st.integers(0, 2 ** 31 - 1),
    # mask / rename modes: through make_model, a catalogue file (make_residual) or the AeRes command line; which of the six
    # columns carry non-standard names (bit mask, 0 = none)
    "via": st.sampled_from(["api", "file", "file", "cli"]),
    "rename_mask": st.sampled_from([0, 0, 63, 63, 1, 2, 4, 8, 16, 32, 5, 24, 36]),
})

RENAMES = (("ra", "RAJ2000", "ra_col", "--racol"), ("dec", "DEJ2000", "dec_col", "--deccol"), ("peak_flux", "S", "peak_col", "--peakcol"),
           ("a", "maj", "a_col", "--acol"), ("b", "min", "b_col", "--bcol"), ("pa", "theta", "pa_col", "--pacol"))


def renamed_catalogue(catfile, out, mask):
    """copy of the component table with the selected columns renamed; -> (colmap or None, CLI arguments)"""
    t = Table.read(catfile)
    colmap, argv = {}, []
    for k, (old, new, key, opt) in enumerate(RENAMES):
        if mask >> k & 1:
            t.rename_column(old, new)
            colmap[key] = new
            argv += [opt, new]
    t.write(out)
    return (colmap or None), argv


def build(c):
    s = c["scale"] / 3600.0
    rows, cols = c["rows"], c["cols"]
    maxhalf = 1.1 / s
    if math.hypot(rows, cols) / 2 > maxhalf * 0.8:
        k = maxhalf * 0.8 / (math.hypot(rows, cols) / 2)
        rows, cols = max(40, int(rows * k)), max(40, int(cols * k))
    room = max(0.0, 1.2 / s - math.hypot(rows, cols) / 2)
    crpix = ((cols + 1) / 2 + c["crpix_off"][0] * room * 0.7, (rows + 1) / 2 + c["crpix_off"][1] * room * 0.7)
    w, hdr = skyimg.make_header(c["proj"], c["crval"], crpix, c["scale"], (rows, cols), (4.0, 0.8, 20.0), flipy=c["flipy"])
    sources, cat = [], []
    for k, sc in enumerate(c["srcs"]):
        if sc["where"] == "in":
            px, py = 2 + sc["fx"] * (cols - 3), 2 + sc["fy"] * (rows - 3)
        elif sc["where"] == "edge":
            dpx = 1.0 + 2 * sc["dist"]
            t = sc["fx"]
            # 1..3 px inside the image border (the border is at 0.5 and n + 0.5 in FITS pixel coordinates)
            px, py = [(0.5 + dpx, 1.5 + t * (rows - 2)), (cols + 0.5 - dpx, 1.5 + t * (rows - 2)), (1.5 + t * (cols - 2), 0.5 + dpx),
                      (1.5 + t * (cols - 2), rows + 0.5 - dpx)][sc["side"]]
        else:
            dist = 2.0 + sc["dist"] * 30
            t = sc["fx"]
            px, py = [(0.5 - dist, 1 + t * rows), (cols + 0.5 + dist, 1 + t * rows), (1 + t * cols, 0.5 - dist),
                      (1 + t * cols, rows + 0.5 + dist)][sc["side"]]
        ra, dec = (float(v) for v in w.pix2sky(px, py))
        if sc["where"] == "far":
            # a catalogue entry from elsewhere on the sky (e.g. an all-sky catalogue): the other hemisphere, where
            # SIN/TAN assign no pixel position at all
            ra, dec = (c["crval"][0] + 150.0 + 60.0 * sc["fx"]) % 360.0, max(-89.0, min(89.0, -c["crval"][1] + 40 * (sc["fy"] - 0.5)))
            px, py = -1e6, -1e6
        fw = min(sc["fwhm"], 0.25 * min(rows, cols))
        a = fw * s
        b = a * sc["ratio"]
        src = {"ra": ra, "dec": dec, "peak": sc["peak"], "a": a, "b": b, "pa": sc["pa"], "pix": (px, py), "where": sc["where"]}
        sources.append(src)
        o = ComponentSource()
        o.ra, o.dec, o.peak_flux, o.a, o.b, o.pa = ra, dec, sc["peak"], a * 3600, b * 3600, sc["pa"]
        o.island, o.source, o.local_rms = k, 0, abs(sc["peak"]) / 50.0
        o.uuid = "m-%03d" % k
        o.ra_str, o.dec_str = "00:00:00.00", "+00:00:00.00"
        cat.append(o)
    return w, hdr, (rows, cols), sources, cat


def render_affine(w, shape, src, nsig=6.0):
    """pixel-space Gaussian in the oblique basis spanned by the images of the two sigma-length semi-axes"""
    rows, cols = shape
    img = np.zeros(shape)
    p1, p2 = (float(v) for v in w.sky2pix(src["ra"], src["dec"]))
    sa, sb = src["a"] * skyimg.FWHM2SIG, src["b"] * skyimg.FWHM2SIG
    m1 = [float(v) for v in w.sky2pix(*refs.vdest(src["ra"], src["dec"], sa, src["pa"]))]
    m2 = [float(v) for v in w.sky2pix(*refs.vdest(src["ra"], src["dec"], sb, src["pa"] + 90.0))]
    v1 = np.array([m1[0] - p1, m1[1] - p2])
    v2 = np.array([m2[0] - p1, m2[1] - p2])
    M = np.linalg.inv(np.array([v1, v2]).T)
    half = nsig * max(np.hypot(*v1), np.hypot(*v2)) * 1.3 + 2
    j0, j1 = int(max(0, math.floor(p1 - 1 - half))), int(min(cols, math.ceil(p1 - 1 + half) + 1))
    i0, i1 = int(max(0, math.floor(p2 - 1 - half))), int(min(rows, math.ceil(p2 - 1 + half) + 1))
    if j0 >= j1 or i0 >= i1:
        return img
    jj, ii = np.meshgrid(np.arange(j0, j1), np.arange(i0, i1))
    d1, d2 = jj + 1.0 - p1, ii + 1.0 - p2
    al = M[0, 0] * d1 + M[0, 1] * d2
    be = M[1, 0] * d1 + M[1, 1] * d2
    img[i0:i1, j0:j1] = src["peak"] * np.exp(-0.5 * (al * al + be * be))
    return img


def on_image(src, shape):
    px, py = src["pix"]
    return 1.0 <= px <= shape[1] and 1.0 <= py <= shape[0]


def check_case(c):
    res = Res()
    w, hdr, shape, sources, cat = build(c)
    helper = WCSHelper.from_header(hdr)
    mode = c["mode"]
    tags = dict(mode=mode, proj=c["proj"])
    if mode in ("mask-frac", "mask-sigma"):
        sources = [s for s in sources]
        for s_, o in zip(sources, cat):
            s_["peak"] = abs(s_["peak"])
            o.peak_flux = abs(o.peak_flux)
    model = np.asarray(AeRes.make_model(cat, shape, helper), dtype=np.float64)
    if model.shape != tuple(shape):
        res.bad("model-shape", "model shape %r for image shape %r" % (model.shape, shape), **tags)
        return res
    if not np.all(np.isfinite(model)):
        res.bad("model-nonfinite", "%s: the model image has %d non-finite pixels (sources: %s)" % (
            c["proj"], int(np.sum(~np.isfinite(model))), sorted(set(s_["where"] for s_ in sources))), **tags)
        return res
    expect = np.zeros(shape)
    resolvable = True
    judged = np.zeros(shape, dtype=bool)
    peakmap = np.zeros(shape)
    per_source = []
    for s_ in sources:
        if not on_image(s_, shape):
            per_source.append(None)
            continue
        one = skyimg.render(w, shape, [s_], nsig=6.0)
        aff = render_affine(w, shape, s_)
        if np.max(np.abs(one - aff)) > 1e-5 * abs(s_["peak"]):
            resolvable = False
        expect += one
        per_source.append(one)
        within5 = np.abs(one) >= abs(s_["peak"]) * math.exp(-12.5)
        judged |= within5
        peakmap = np.maximum(peakmap, np.where(within5, abs(s_["peak"]), 0))
    if not resolvable:
        res.ambiguous += 1
        res.label("renderings-disagree(skipped)")
    else:
        tol = 1e-4 * np.maximum(peakmap, 0) * max(1, sum(1 for p in per_source if p is not None) ** 0.5)
        # overlapping sources: tolerance is per source, so use the sum of the peaks of the sources covering a pixel
        tol = np.zeros(shape)
        for s_, one in zip(sources, per_source):
            if one is not None:
                tol += 1e-4 * abs(s_["peak"]) * (np.abs(one) >= abs(s_["peak"]) * math.exp(-12.5))
        tol += 2e-7 * np.abs(expect)               # float32 model array
        diff = np.abs(model - expect)
        badpix = judged & (diff > tol)
        if badpix.any():
            i, j = [int(v[0]) for v in np.where(badpix)]
            res.bad("model-values", "%s scale=%.1f\": model differs from the catalogue's Gaussians by %.3g (%.3g of the peak) "
                    "at pixel (%d,%d); %d pixels" % (c["proj"], c["scale"], float(diff[i, j]), float(diff[i, j] / max(peakmap[i, j], 1e-30)),
                                                     i, j, int(badpix.sum())), **tags)
        res.stat("model_err_over_tolerance", float(np.max(np.where(judged, diff / np.maximum(tol, 1e-30), 0))) if judged.any() else 0.0)
        # nothing far from every on-image source (and nothing from off-image sources)
        far = ~judged & (np.abs(expect) < 1e-7 * max(1e-30, peakmap.max() if peakmap.max() > 0 else 1))
        stray = far & (np.abs(model) > 1e-4 * max([abs(s_["peak"]) for s_ in sources] + [1e-30]))
        if stray.any():
            i, j = [int(v[0]) for v in np.where(stray)]
            res.bad("stray-flux", "model has %.3g at pixel (%d,%d), far from every on-image source" % (float(model[i, j]), i, j), **tags)
    d = workdir("c14_")
    try:
        if mode == "additive" and len(cat) >= 2:
            k = max(1, min(len(cat) - 1, c["split"] % len(cat)))
            m1 = np.asarray(AeRes.make_model(cat[:k], shape, helper), dtype=np.float64)
            m2 = np.asarray(AeRes.make_model(cat[k:], shape, helper), dtype=np.float64)
            # the model array is float32 and is accumulated source by source: rounding is relative to the sum of the
            # absolute contributions at a pixel (sources of both signs can cancel)
            abssum = np.zeros(shape)
            for one in per_source:
                if one is not None:
                    abssum += np.abs(one)
            t = 1e-6 * abssum + 1e-12
            if not np.all(np.abs(model - (m1 + m2)) <= t):
                res.bad("additivity", "model(S1+S2) differs from model(S1)+model(S2) by up to %.3g" % float(np.max(np.abs(model - m1 - m2))), **tags)
        elif mode in ("addsub", "rename"):
            rng = np.random.default_rng(c["seed"])
            img = rng.normal(size=shape).astype(np.float32)
            path = os.path.join(d, "im.fits")
            skyimg.write_fits(path, img, hdr, dtype=np.float32, rep=c.get("rep"))
            img = np.squeeze(np.asarray(fits.getdata(path)))      # the image is what the file holds (scaled storage rounds)
            colmap = None
            if not cat:
                res.label("empty-catalogue")
            else:
                catfile = os.path.join(d, "cat.csv")
                save_catalog(catfile, cat)
                catfile = os.path.join(d, "cat_comp.csv")
                if mode == "rename":
                    colmap, _ = renamed_catalogue(catfile, os.path.join(d, "cat_renamed.csv"), c.get("rename_mask") or 63)
                    catfile = os.path.join(d, "cat_renamed.csv")
                added = os.path.join(d, "added.fits")
                back = os.path.join(d, "back.fits")
                mfile = os.path.join(d, "model.fits")
                AeRes.make_residual(path, catfile, added, mfile=mfile, add=True, colmap=colmap)
                AeRes.make_residual(added, catfile, back, colmap=colmap)
                if not (os.path.exists(added) and os.path.exists(back) and os.path.exists(mfile)):
                    res.bad("residual-files", "make_residual did not write its output files", **tags)
                else:
                    mfits = np.asarray(fits.getdata(mfile), dtype=np.float64)
                    if not np.allclose(mfits, model, rtol=1e-6, atol=1e-7 * max(1.0, float(np.max(np.abs(model))))):
                        res.bad("model-file", "model written by make_residual differs from make_model (max %.3g)" % float(
                            np.max(np.abs(mfits - model))), **tags)
                    a_img = np.asarray(fits.getdata(added), dtype=np.float64)
                    if not np.allclose(a_img, img + model, rtol=0, atol=4e-7 * (np.abs(img) + np.abs(model)).max() + 1e-12):
                        res.bad("add-image", "add=True output is not image + model (max diff %.3g)" % float(np.max(np.abs(a_img - img - model))), **tags)
                    b_img = np.asarray(fits.getdata(back), dtype=np.float64)
                    t = 6e-7 * (np.abs(img) + 2 * np.abs(model)) + 1e-12
                    if not np.all(np.abs(b_img - img) <= t):
                        res.bad("add-then-subtract", "adding then subtracting the model changes the image by up to %.3g" % float(
                            np.max(np.abs(b_img - img))), **tags)
        elif mode in ("mask-frac", "mask-sigma") and resolvable:
            if mode == "mask-frac":
                mk = AeRes.make_model(cat, shape, helper, mask=True, frac=c["frac"])
            else:
                mk = AeRes.make_model(cat, shape, helper, mask=True, sigma=c["sigma"])
            blank = ~np.isfinite(np.asarray(mk))
            want = np.zeros(shape, dtype=bool)
            band = np.zeros(shape, dtype=bool)
            for s_, o, one in zip(sources, cat, per_source):
                if one is None:
                    continue
                thr = c["frac"] * s_["peak"] if mode == "mask-frac" else c["sigma"] * o.local_rms
                want |= one >= thr
                band |= np.abs(one - thr) <= 2e-4 * s_["peak"]
            wrong = (blank != want) & ~band
            if wrong.any():
                i, j = [int(v[0]) for v in np.where(wrong)]
                res.bad("mask-set", "mask mode (%s): pixel (%d,%d) is %s but %s; %d pixels differ" % (
                    mode, i, j, "blank" if blank[i, j] else "kept", "a source's model exceeds its threshold there" if want[i, j]
                    else "no source's model exceeds its threshold there", int(wrong.sum())), **tags)
            if np.any(np.isfinite(np.asarray(mk)) & (np.asarray(mk) != 0)):
                res.bad("mask-values", "mask mode returns non-zero finite values", **tags)
            via = c.get("via", "api")
            if via != "api" and cat and not res.violations:
                # the same through a catalogue file (optionally with renamed columns) and through the AeRes command line:
                # the output image is the input with exactly those pixels blanked
                rng = np.random.default_rng(c["seed"])
                img = rng.normal(size=shape).astype(np.float32)
                path = os.path.join(d, "im.fits")
                skyimg.write_fits(path, img, hdr, dtype=np.float32, rep=c.get("rep"))
                img = np.squeeze(np.asarray(fits.getdata(path)))
                save_catalog(os.path.join(d, "cat.csv"), cat)
                colmap, cargv = renamed_catalogue(os.path.join(d, "cat_comp.csv"), os.path.join(d, "cat_in.csv"), c.get("rename_mask", 0))
                outf = os.path.join(d, "masked.fits")
                if via == "file":
                    kw = {"frac": c["frac"]} if mode == "mask-frac" else {"sigma": c["sigma"]}
                    AeRes.make_residual(path, os.path.join(d, "cat_in.csv"), outf, mask=True, colmap=colmap, **kw)
                else:
                    from AegeanTools.CLI import AeRes as aeres_cli
                    argv = ["-c", os.path.join(d, "cat_in.csv"), "-f", path, "-r", outf, "--mask"] + cargv
                    argv += ["--frac", repr(c["frac"])] if mode == "mask-frac" else ["--sigma", repr(c["sigma"])]
                    aeres_cli.main(argv)
                if not os.path.exists(outf):
                    res.bad("mask-file-missing", "mask mode via %s wrote no output image" % via, via=via, **tags)
                else:
                    o_img = np.asarray(fits.getdata(outf), dtype=np.float64)
                    fblank = ~np.isfinite(o_img)
                    wrong = (fblank != want) & ~band
                    if wrong.any():
                        i, j = [int(v[0]) for v in np.where(wrong)]
                        res.bad("mask-file-set", "mask mode (%s) via %s, renamed columns %s: pixel (%d,%d) is %s in the output image "
                                "but %s; %d pixels differ" % (mode, via, sorted((colmap or {}).values()), i, j,
                                                              "blank" if fblank[i, j] else "kept",
                                                              "should be blank" if want[i, j] else "should be kept", int(wrong.sum())),
                                via=via, **tags)
                    elif not np.array_equal(o_img[~fblank], img.astype(np.float64)[~fblank]):
                        res.bad("mask-file-values", "mask mode via %s changes pixels it does not blank" % via, via=via, **tags)
                res.label("mask-via-" + via, "mask-renamed" if colmap else "mask-std-columns")
    finally:
        shutil.rmtree(d, ignore_errors=True)
    edge = any(s_["where"] in ("edge", "off", "far") for s_ in sources)
    slanted = any(abs((s_["pa"] % 90.0)) > 1e-6 for s_ in sources)
    res.nontrivial = bool(len(sources) >= 2 and edge and slanted)
    res.label("mode-" + mode, "proj-" + c["proj"])
    return res


# ------------------------------------------------------------------ closed loop
loop_strategy = st.fixed_dictionaries({
    "rep": skyimg.rep_strategy,      # how the image is stored (CD matrix, degenerate axes, BSCALE/BZERO)
    "proj": st.sampled_from(refs.ZWCS.PROJ),
    "crval": st.tuples(f(0, 360, exclude_max=True), f(-80, 80)),
    "scale": f(3, 30), "size": st.integers(96, 200),
    "beam": st.tuples(f(4, 7), f(1, 1.6), f(-90, 90)),
    "srcs": st.lists(st.tuples(f(0.15, 0.85), f(0.15, 0.85), f(0, 1.2), f(0.4, 1.0), f(-90, 90), f(0.5, 5)), min_size=1, max_size=6),
    "docov": st.booleans(),
})


def check_loop(c):
    res = Res()
    n = c["size"]
    s = c["scale"] / 3600.0
    if n * math.sqrt(2) / 2 > 1.1 / s:
        n = max(64, int(1.1 / s * 2 / math.sqrt(2)))
    bmin, br, bpa = c["beam"]
    w, hdr = skyimg.make_header(c["proj"], c["crval"], ((n + 1) / 2.0 + 3.3, (n + 1) / 2.0 - 2.1), c["scale"], (n, n),
                                (bmin * br, 1.0 / br, bpa))
    beam = (hdr["BMAJ"], hdr["BMIN"], hdr["BPA"])
    placed, sky = [], []
    for fx, fy, ia, ir, ipa, peak in c["srcs"]:
        px, py = 1 + fx * (n - 1), 1 + fy * (n - 1)
        intr = (ia * hdr["BMAJ"] + 1e-9, ia * hdr["BMAJ"] * ir + 1e-9, ipa)
        a, b, pa = skyimg.convolve(beam, intr)
        fw = a / s
        if any(math.hypot(px - q[0], py - q[1]) < 4.0 * max(fw, q[2]) for q in placed):
            continue                   # isolated sources only
        if min(px, py, n - px, n - py) < 2.5 * fw:
            continue
        placed.append((px, py, fw))
        ra, dec = (float(v) for v in w.pix2sky(px, py))
        sky.append({"ra": ra, "dec": dec, "peak": peak, "a": a, "b": b, "pa": pa})
    if not sky:
        return res
    img = skyimg.render(w, (n, n), sky)
    rms = min(x["peak"] for x in sky) / 200.0
    # known finding K1 (amplitude bound) is excluded by construction
    for x, (px, py, fw) in zip(sky, placed):
        i, j = int(round(py - 1)), int(round(px - 1))
        if x["peak"] > 1.05 * float(img[max(0, i - 1):i + 2, max(0, j - 1):j + 2].max()) + 3 * rms:
            res.excluded_known += 1
            return res
    d = workdir("c14l_")
    try:
        path = os.path.join(d, "im.fits")
        skyimg.write_fits(path, img, hdr, dtype=np.float64, rep=c.get("rep"))
        comps = SourceFinder().find_sources_in_image(path, rms=rms, bkg=0.0, docov=c["docov"], cores=1, **skyimg.cube_kw(c.get("rep")))
        if len(comps) != len(sky):
            res.bad("loop-count", "%d isolated sources injected, %d components found" % (len(sky), len(comps)), docov=c["docov"])
            return res
        save_catalog(os.path.join(d, "found.csv"), comps)
        AeRes.make_residual(path, os.path.join(d, "found_comp.csv"), os.path.join(d, "resid.fits"))
        resid = np.asarray(fits.getdata(os.path.join(d, "resid.fits")), dtype=np.float64)
        worst = 0.0
        for x, (px, py, fw) in zip(sky, placed):
            i, j = int(round(py - 1)), int(round(px - 1))
            h = int(3 * fw)
            sl = resid[max(0, i - h):i + h + 1, max(0, j - h):j + h + 1]
            worst = max(worst, float(np.max(np.abs(sl))) / x["peak"])
        res.stat("loop_residual_over_peak", worst)
        if not worst < 1e-3:
            res.bad("loop-residual", "%s: residual after subtracting the extracted catalogue is %.3g of the peak" % (c["proj"], worst),
                    docov=c["docov"])
        res.nontrivial = len(sky) >= 2
        res.label("closed-loop")
    finally:
        shutil.rmtree(d, ignore_errors=True)
    return res


TESTS = {
    "model": {"strategy": lambda tier: case_strategy, "check": check_case,
              "n": {"quick": 480, "thorough": 12000}},
    "loop": {"strategy": lambda tier: loop_strategy, "check": check_loop,
             "n": {"quick": 96, "thorough": 2000}},
}
