"""C09 - circle and polygon regions cover their shape and nothing far from it (regions.Region)"""
import math

import healpy as hp
import numpy as np
from hypothesis import strategies as st

from AegeanTools.regions import Region
from vlib import refs
from vlib.core import Res

PROP = "C09"
SHARDS = {"quick": 8, "thorough": 16}
RULE = ("Hypothesis: circle centre in {dec=+-90, RA in {0, 360-1e-7}, uniform on the sphere}, radius 0.01..60 deg (log-uniform), "
        "depth 3..12 subject to <= 3e5 pixels; convex polygons of 3..8 vertices on a small circle (circumradius 0.1..30 deg) "
        "in either orientation. Query points are built on the sphere by the harness: interior (uniform in the disc / positive "
        "combinations of the vertices), a band of +-1 pixel size around the boundary (counted, not judged) and beyond "
        "radius + 3 pixel sizes; scalar and vector calls, radians and degin=True, plus NaN positions. Oracle: interior => inside, "
        "far => outside, area between the two spherical caps. Non-trivial = centre within 2r of a pole or of the RA wrap, "
        "or depth >= 9, or degin; distinct = distinct case.")
ASSUMPTIONS = [
    "pixel size = healpy nside2resol at the region depth",
    "pixel-count bound 6*4^d*(1-cos r) <= 3e5 (memory)",
    "polygons are convex with vertices on a small circle (the documented requirement of add_poly is convexity)",
]
f = st.floats

centre_st = st.one_of(
    st.tuples(f(0, 360, exclude_max=True), f(-1, 1).map(lambda v: math.degrees(math.asin(v)))),
    st.tuples(f(0, 360, exclude_max=True), st.sampled_from([90.0, -90.0])),
    st.tuples(st.sampled_from([0.0, 360 - 1e-7, 1e-6, 359.5]), f(-85, 85)),
    st.tuples(f(0, 360, exclude_max=True), st.one_of(f(85, 90), f(-90, -85))),
)


def max_depth_for(r_deg):
    d = 12
    while d > 3 and 6 * 4 ** d * (1 - math.cos(math.radians(r_deg))) > 3e5:
        d -= 1
    return d


circle_case = st.tuples(centre_st, f(-2, math.log10(60)).map(lambda e: 10 ** e)).flatmap(
    lambda t: st.fixed_dictionaries({
        "centre": st.just(t[0]), "r": st.just(t[1]),
        "depth": st.integers(3, max_depth_for(t[1])),
        "pts": st.lists(st.tuples(f(0, 1), f(0, 360, exclude_max=True), st.sampled_from(["in", "in", "edge", "far", "far"])),
                        min_size=4, max_size=24),
        "form": st.sampled_from(["vector-rad", "vector-deg", "scalar-rad", "scalar-deg"]),
    }))


def _az(t):
    start, w, rev = t
    tot = sum(w)
    az, a = [], start
    for wi in w:
        az.append(a % 360.0)
        a += 360.0 * wi / tot
    return az[::-1] if rev else az


poly_case = st.tuples(centre_st, f(-1, math.log10(30)).map(lambda e: 10 ** e)).flatmap(
    lambda t: st.fixed_dictionaries({
        "centre": st.just(t[0]), "R": st.just(t[1]),
        "depth": st.integers(3, max_depth_for(t[1])),
        "az": st.tuples(f(0, 360, exclude_max=True), st.lists(f(1.0, 1.6), min_size=3, max_size=8), st.booleans()).map(_az),
        "weights": st.lists(st.lists(f(0.05, 1.0), min_size=8, max_size=8), min_size=2, max_size=10),
        "far": st.lists(st.tuples(f(0, 1), f(0, 360, exclude_max=True)), min_size=2, max_size=10),
        "form": st.sampled_from(["vector-rad", "vector-deg", "scalar-deg"]),
    }))


def ask(region, ras, decs, form):
    ras, decs = np.asarray(ras, dtype=float), np.asarray(decs, dtype=float)
    if form == "vector-rad":
        return [bool(v) for v in region.sky_within(np.radians(ras), np.radians(decs))]
    if form == "vector-deg":
        return [bool(v) for v in region.sky_within(ras, decs, degin=True)]
    if form == "scalar-rad":
        return [bool(np.ravel(region.sky_within(math.radians(a), math.radians(b)))[0]) for a, b in zip(ras, decs)]
    return [bool(np.ravel(region.sky_within(float(a), float(b), degin=True))[0]) for a, b in zip(ras, decs)]


def nontrivial(c, r):
    ra, dec = c["centre"]
    near_pole = 90 - abs(dec) < 2 * r
    near_wrap = min(ra, 360 - ra) * math.cos(math.radians(min(abs(dec), 89.999))) < 2 * r
    return bool(near_pole or near_wrap or c["depth"] >= 9 or c["form"].endswith("deg"))


def check_circle(c):
    res = Res()
    ra0, dec0 = c["centre"]
    r, d = c["r"], c["depth"]
    resol = math.degrees(hp.nside2resol(2 ** d))
    region = Region(maxdepth=d)
    region.add_circles(math.radians(ra0), math.radians(dec0), math.radians(r))
    kinds, ras, decs = [], [], []
    for u, az, kind in c["pts"]:
        if kind == "in":
            rho = r * math.sqrt(u) * (1 - 1e-9)
        elif kind == "edge":
            rho = max(0.0, r + (2 * u - 1) * resol)
        else:
            rho = r + 3 * resol * (1 + 1e-9) + u * max(r, 5 * resol)
        if rho >= 180:
            continue
        a, b = refs.vdest(ra0, dec0, rho, az)
        kinds.append(kind)
        ras.append(float(a))
        decs.append(float(b))
    got = ask(region, ras, decs, c["form"])
    for k, g, a, b in zip(kinds, got, ras, decs):
        sep = float(refs.vsep(ra0, dec0, a, b))
        if k == "in" and not g:
            res.bad("interior-missed", "depth %d circle (%r, %r) r=%r: position (%r, %r) at %.6g deg from the centre is not "
                    "inside [%s]" % (d, ra0, dec0, r, a, b, sep, c["form"]), form=c["form"])
        elif k == "far" and g:
            res.bad("far-inside", "depth %d circle (%r, %r) r=%r: position (%r, %r) at %.6g deg (> r + 3 pixel sizes = %.6g) "
                    "is inside [%s]" % (d, ra0, dec0, r, a, b, sep, r + 3 * resol, c["form"]), form=c["form"])
        elif k == "edge":
            res.label("edge-inside" if g else "edge-outside")
    nan = region.sky_within(np.array([float("nan"), ra0]), np.array([dec0, float("nan")]), degin=True)
    if bool(nan[0]) or bool(nan[1]):
        res.bad("nan-inside", "a position with a NaN coordinate is reported inside")
    # whole-degree positions handed over as integers (python ints, integer arrays) with degin=True
    ipts = {(int(round(ra0)) % 360, max(-90, min(90, int(round(dec0)))))}
    for a, b in zip(ras, decs):
        ipts.add((int(round(a)) % 360, max(-90, min(90, int(round(b))))))
    ijudged = []
    for ia, ib in sorted(ipts):
        sep = float(refs.vsep(ra0, dec0, float(ia), float(ib)))
        if sep <= r * (1 - 1e-9):
            ijudged.append((ia, ib, True, sep))
        elif sep >= r + 3 * resol * (1 + 1e-9):
            ijudged.append((ia, ib, False, sep))
    if ijudged:
        ia_ = np.array([p[0] for p in ijudged], dtype=np.int64)
        ib_ = np.array([p[1] for p in ijudged], dtype=np.int64)
        gvec = [bool(v) for v in region.sky_within(ia_, ib_, degin=True)]
        gsca = [bool(np.ravel(region.sky_within(p[0], p[1], degin=True))[0]) for p in ijudged[:4]]
        for k, (ia, ib, want, sep) in enumerate(ijudged):
            for how, g in (("integer array", gvec[k]),) + ((("python int", gsca[k]),) if k < len(gsca) else ()):
                if g != want:
                    res.bad("integer-degrees", "depth %d circle (%r, %r) r=%r: position (%d, %d) given as %s with degin=True, "
                            "%.6g deg from the centre, is reported %s" % (d, ra0, dec0, r, ia, ib, how, sep,
                                                                          "inside" if g else "outside"), how=how)
                    break
        res.label("integer-degree-positions")
    area = region.get_area()
    sq = (180 / math.pi) ** 2
    lo = 2 * math.pi * (1 - math.cos(math.radians(r))) * sq
    hi = 2 * math.pi * (1 - math.cos(math.radians(min(180.0, r + 3 * resol)))) * sq
    if not (lo * (1 - 1e-9) <= area <= hi * (1 + 1e-9)):
        res.bad("area", "depth %d circle r=%r: area %r not within caps [%r, %r]" % (d, r, area, lo, hi))
    res.stat("area_excess_over_cap", (area - lo) / max(hi - lo, 1e-300))
    res.nontrivial = nontrivial(c, r)
    res.label("depth>=9" if d >= 9 else "depth<9", c["form"])
    if 90 - abs(dec0) < 2 * r:
        res.label("near-pole")
    return res


def check_poly(c):
    res = Res()
    ra0, dec0 = c["centre"]
    R, d = c["R"], c["depth"]
    resol = math.degrees(hp.nside2resol(2 ** d))
    verts = [tuple(float(v) for v in refs.vdest(ra0, dec0, R, az)) for az in c["az"]]
    region = Region(maxdepth=d)
    try:
        region.add_poly([[math.radians(a), math.radians(b)] for a, b in verts])
    except Exception as e:
        # healpy refuses some polygons (e.g. vertices indistinguishable at double precision): not a property matter
        if "healpy" in repr(e).lower() or "degenerate" in str(e).lower() or "convex" in str(e).lower():
            res.ambiguous += 1
            return res
        raise
    V = refs.sph2vec([v[0] for v in verts], [v[1] for v in verts])
    n = len(verts)
    cvec = refs.sph2vec(ra0, dec0)
    ras, decs, kinds = [], [], []
    for w in c["weights"]:
        p = np.sum(V * np.array(w[:n])[:, None], axis=0)
        p /= np.linalg.norm(p)
        # interior with margin: same side of every edge great circle as the centre
        ok = True
        for i in range(n):
            nrm = np.cross(V[i], V[(i + 1) % n])
            nrm /= np.linalg.norm(nrm)
            s_c = float(np.dot(nrm, cvec))
            s_p = float(np.dot(nrm, p))
            if not (s_p * s_c > 0 and abs(s_p) > 1e-9):
                ok = False
        if ok:
            a, b = refs.vec2sph(p)
            ras.append(float(a))
            decs.append(float(b))
            kinds.append("in")
    for u, az in c["far"]:
        rho = R + 3 * resol * (1 + 1e-9) + u * max(R, 5 * resol)
        if rho >= 180:
            continue
        a, b = refs.vdest(ra0, dec0, rho, az)
        ras.append(float(a))
        decs.append(float(b))
        kinds.append("far")
    got = ask(region, ras, decs, c["form"])
    for k, g, a, b in zip(kinds, got, ras, decs):
        if k == "in" and not g:
            res.bad("poly-interior-missed", "depth %d polygon %r: interior position (%r, %r) is not inside [%s]" % (
                d, verts, a, b, c["form"]), n=n)
        elif k == "far" and g:
            res.bad("poly-far-inside", "depth %d polygon around (%r,%r) circumradius %r: position (%r, %r) beyond R + 3 pixel "
                    "sizes is inside [%s]" % (d, ra0, dec0, R, a, b, c["form"]), n=n)
    res.nontrivial = nontrivial(c, R)
    res.label("poly-%d" % n)
    return res


TESTS = {
    "circle": {"strategy": lambda tier: circle_case, "check": check_circle,
               "n": {"quick": 1500, "thorough": 16000}},
    "poly": {"strategy": lambda tier: poly_case, "check": check_poly,
             "n": {"quick": 800, "thorough": 8000}},
}
